#!/bin/bash
# usage: verify_seeded.sh <dir with patch.diff demo.py meta.json>
# Confirms in a fresh scratch worktree: patch applies, pinned test-suite counts unchanged,
# demo exits 1 with the patch and 0 without.
set -u
D=$1
WT=/tmp/wt-verify-$$
git -C /repo worktree add --detach $WT HEAD >/dev/null 2>&1 || exit 3
cd $WT
DEMO=$(ls $D/demo.* | head -1)
run_demo() { if [[ $DEMO == *.py ]]; then timeout 300 /venv/bin/python $DEMO $WT >/dev/null 2>&1; else timeout 300 bash $DEMO $WT >/dev/null 2>&1; fi; echo $?; }
CLEAN=$(run_demo)
if ! git apply $D/patch.diff 2>/dev/null; then patch -p1 -s < $D/patch.diff || { echo "PATCH-FAILED"; cd /; git -C /repo worktree remove --force $WT; exit 2; }; fi
WHERE=$(/venv/bin/python -c "import behave; print(behave.__file__)")
TESTS=$(/venv/bin/python -m pytest -q -p no:cacheprovider --timeout=900 --continue-on-collection-errors 2>&1 | tail -1)
PATCHED=$(run_demo)
cd /
git -C /repo worktree remove --force $WT
echo "dir=$D behave=$WHERE tests='$TESTS' demo_clean=$CLEAN demo_patched=$PATCHED"
