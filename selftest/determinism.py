#!/venv/bin/python
"""Determinism protocol: every (property, seed, hash-seed class) is executed in
several fresh interpreters — in ascending and descending seed order (different
predecessor state), under different PYTHONHASHSEED values for the class-independent
part — and the history digests are compared.

usage: determinism.py [--seeds N] [--props C01,C12,...]
exit 0 iff no digest differs.
"""
import json
import os
import subprocess
import sys

HERE = os.path.dirname(os.path.dirname(os.path.abspath(__file__)))

CHILD = r'''
import sys, os, json
sys.path.insert(0, os.environ.get("VERIF_REPO", "/repo")); sys.path.insert(0, %(here)r)
from sim import props as P, runtime as R
from sim.driver import Stats
prop, order, hs = sys.argv[1], sys.argv[2], int(sys.argv[3])
seeds = [int(x) for x in sys.argv[4].split(",")]
if order == "desc":
    seeds = seeds[::-1]
root = os.path.join(R.scratch_root(), "behave-det-%%d" %% os.getpid()); os.makedirs(root, exist_ok=True)
out = {}
st = Stats()
for s in seeds:
    vs, dig = P.PROPS[prop]["evaluate"](s, hs, root, st)
    out[str(s)] = dig
import shutil; shutil.rmtree(root, ignore_errors=True)
print("DIGESTS " + json.dumps(out))
'''


def run_child(prop, order, hs, seeds, pyhash):
    env = dict(os.environ)
    env["PYTHONHASHSEED"] = str(pyhash)
    env["PYTHONUTF8"] = "1"
    p = subprocess.run([sys.executable, "-c", CHILD % {"here": HERE}, prop, order, str(hs),
                        ",".join(str(s) for s in seeds)], env=env, stdout=subprocess.PIPE, stderr=subprocess.PIPE,
                       cwd=HERE, timeout=3000)
    for line in p.stdout.decode().split("\n"):
        if line.startswith("DIGESTS "):
            return json.loads(line[8:])
    raise RuntimeError("child failed: %s" % p.stderr.decode()[-800:])


def main():
    n = 60
    props = None
    for a in sys.argv[1:]:
        if a.startswith("--seeds="):
            n = int(a.split("=")[1])
        if a.startswith("--props="):
            props = a.split("=")[1].split(",")
    sys.path.insert(0, HERE)
    sys.path.insert(0, os.environ.get("VERIF_REPO", "/repo"))
    from sim import props as P
    props = props or sorted(P.PROPS)
    bad = 0
    total = 0
    from concurrent.futures import ThreadPoolExecutor
    jobs = []
    for prop in props:
        per = max(4, n // (12 if prop == "C12" else 1))
        for hs in range(4):
            seeds = [7000003 + hs + 4 * i for i in range(per)]
            jobs.append((prop, hs, seeds))

    def one(job):
        prop, hs, seeds = job
        a = run_child(prop, "asc", hs, seeds, hs)
        b = run_child(prop, "desc", hs, seeds, hs)
        return prop, hs, seeds, a, b
    with ThreadPoolExecutor(max_workers=8) as ex:
        for prop, hs, seeds, a, b in ex.map(one, jobs):
            diff = [s for s in seeds if a[str(s)] != b[str(s)]]
            total += len(seeds)
            if diff:
                bad += len(diff)
                print("MISMATCH %s hashseed=%d seeds=%s" % (prop, hs, diff[:8]))
    print("determinism: %d (property, seed, hash-seed class) cases executed twice in fresh interpreters "
          "(ascending / descending order), %d mismatches" % (total, bad))
    return 1 if bad else 0


if __name__ == "__main__":
    sys.exit(main())
