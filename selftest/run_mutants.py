#!/venv/bin/python
"""Sensitivity run: apply each mutant of selftest/mutants.py (and each seeded
change under /verif/seeded/*/patch.diff) to a scratch copy of /repo OUTSIDE
/repo and /verif, run the property's quick check against it
(VERIF_REPO=<copy>) and expect exit 1.  The copy is deleted immediately.

usage: run_mutants.py [ids...] [--props C01,C02] [--jobs N] [--scale F]
"""
import json
import os
import shutil
import subprocess
import sys
import time

HERE = os.path.dirname(os.path.dirname(os.path.abspath(__file__)))
sys.path.insert(0, os.path.join(HERE, "selftest"))
from mutants import MUTANTS  # noqa

SCRATCH = "/dev/shm" if os.path.isdir("/dev/shm") else "/tmp"


def make_copy(tag):
    dst = os.path.join(SCRATCH, "behave-mut-%s-%d" % (tag, os.getpid()))
    if os.path.exists(dst):
        shutil.rmtree(dst)
    subprocess.check_call(["rsync", "-a", "--exclude", ".git", "--exclude", "build", "--exclude", "docs",
                           "--exclude", "features", "--exclude", "issue.features", "--exclude", "more.features",
                           "--exclude", "examples", "--exclude", "tests", "/repo/", dst + "/"])
    return dst


def run_one(mid, prop, apply_fn, workers, timeout=600):
    dst = make_copy(mid)
    try:
        ok, why = apply_fn(dst)
        if not ok:
            return {"id": mid, "prop": prop, "result": "not-applicable", "why": why}
        env = dict(os.environ)
        env["VERIF_REPO"] = dst
        env["VERIF_WORKERS"] = str(workers)
        env["VERIF_EVIDENCE_DIR"] = os.path.join(dst, "_evidence")
        env["VERIF_REPLAY_DIR"] = os.path.join(dst, "_replays")
        t0 = time.time()
        p = subprocess.run([os.path.join(HERE, "check"), prop, "--tier", "quick"], env=env, cwd=HERE,
                           stdout=subprocess.PIPE, stderr=subprocess.STDOUT, timeout=timeout)
        out = p.stdout.decode("utf-8", "replace")
        viol = [l for l in out.split("\n") if l.startswith("  rule=")]
        res = {"id": mid, "prop": prop, "result": {0: "MISSED", 1: "caught", 2: "harness-error"}.get(p.returncode, "rc%d" % p.returncode),
               "wall": round(time.time() - t0, 1), "first": (viol[0][:300] if viol else out[-300:])}
        # replay fidelity: the first (minimised) replay file, re-run in a fresh process against the
        # same changed tree, must reproduce the same violation (exit 1)
        rl = [l for l in out.split("\n") if l.startswith("VIOLATION property=") and " replay=" in l]
        if p.returncode == 1 and rl:
            rpath = rl[0].split(" replay=", 1)[1].strip()
            if os.path.exists(rpath):
                p2 = subprocess.run([os.path.join(HERE, "check"), prop, "--replay", rpath], env=env, cwd=HERE,
                                    stdout=subprocess.PIPE, stderr=subprocess.STDOUT, timeout=300)
                res["replay_reproduced"] = (p2.returncode == 1)
                try:
                    res["replay_bytes"] = os.path.getsize(rpath)
                except OSError:
                    pass
        return res
    finally:
        shutil.rmtree(dst, ignore_errors=True)


def main():
    args = [a for a in sys.argv[1:] if not a.startswith("--")]
    props = None
    workers = 16
    for a in sys.argv[1:]:
        if a.startswith("--props="):
            props = a.split("=", 1)[1].split(",")
        if a.startswith("--workers="):
            workers = int(a.split("=", 1)[1])
    results = []
    for (mid, prop, path, old, new, what) in MUTANTS:
        if args and mid not in args:
            continue
        if props and prop not in props:
            continue

        def apply_fn(dst, path=path, old=old, new=new):
            p = os.path.join(dst, path)
            s = open(p, encoding="utf-8").read()
            if s.count(old) != 1:
                return False, "pattern occurs %d times" % s.count(old)
            open(p, "w", encoding="utf-8").write(s.replace(old, new))
            return True, ""
        r = run_one(mid, prop, apply_fn, workers)
        r["what"] = what
        results.append(r)
        print(json.dumps(r)[:600], flush=True)
    seeded = os.path.join(HERE, "seeded")
    if os.path.isdir(seeded):
        for name in sorted(os.listdir(seeded)):
            meta_p = os.path.join(seeded, name, "meta.json")
            patch = os.path.join(seeded, name, "patch.diff")
            if not (os.path.exists(meta_p) and os.path.exists(patch)):
                continue
            if args and name not in args:
                continue
            meta = json.load(open(meta_p))
            prop = meta.get("check_with") or meta["property"]     # (re-attributed by the builder, see meta.json)
            if props and prop not in props:
                continue

            def apply_fn(dst, patch=patch):
                p = subprocess.run(["patch", "-p1", "-s", "-i", patch], cwd=dst, stdout=subprocess.PIPE, stderr=subprocess.STDOUT)
                return p.returncode == 0, p.stdout.decode()[:200]
            r = run_one(name, prop, apply_fn, workers)
            r["what"] = meta.get("what")
            results.append(r)
            print(json.dumps(r)[:600], flush=True)
    summary = {}
    for r in results:
        summary[r["result"]] = summary.get(r["result"], 0) + 1
    print("SUMMARY", summary)
    out = os.environ.get("MUTANT_RESULTS")
    if out:
        json.dump(results, open(out, "w"), indent=1)


if __name__ == "__main__":
    main()
