#!/venv/bin/python
"""Adds the builder's own confirmation to seeded/<id>/meta.json from a run_mutants.py result file:
   builder_ran = the commands run and what was observed."""
import json, os, sys
HERE = os.path.dirname(os.path.dirname(os.path.abspath(__file__)))
res = {r["id"]: r for r in json.load(open(sys.argv[1]))}
for name in sorted(os.listdir(os.path.join(HERE, "seeded"))):
    mp = os.path.join(HERE, "seeded", name, "meta.json")
    if not os.path.exists(mp):
        continue
    meta = json.load(open(mp))
    r = res.get(name)
    if r is None and meta.get("builder_ran"):
        continue            # annotated by an earlier run
    meta["builder_ran"] = {
        "confirm": "selftest/verify_seeded.sh seeded/%s (fresh scratch worktree of /repo under /tmp, removed afterwards): "
                   "patch applies; pinned suite = 13 failed, 1655 passed (unchanged); demo exits 0 on the clean tree and 1 with the patch" % name,
        "check": ("selftest/run_mutants.py %s (scratch copy on /dev/shm, VERIF_REPO=<copy>, ./check %s --tier quick): %s%s"
                  % (name, meta.get("property"), r["result"], (" -- " + r["first"].strip()[:220]) if r and r.get("first") else "")) if r else "not run",
    }
    json.dump(meta, open(mp, "w"), indent=1)
print("annotated", len(res))
