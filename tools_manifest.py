#!/venv/bin/python
"""Regenerates MANIFEST.json from the registered checks (sim/props.py) and the texts below."""
import json, os, sys
HERE = os.path.dirname(os.path.abspath(__file__))
sys.path.insert(0, HERE); sys.path.insert(0, os.environ.get("VERIF_REPO", "/repo"))

TEXT = {
 "C01": ("exploration", "run-sim", "5.C01",
         "Seeded search over simulated runs: the real runner executes generated programs whose every callback is scripted (raise / interrupt / skip / pass); the exit code is compared with the reference model's reading of the realised events (no false green, no false red). Sampling of worlds, so evidence not proof; that is the right level because the verdict is a 5-way disjunction over unbounded trees and fault positions.",
         "reference model sim/model.py; in-process run through Configuration + run_behave; auto-retry worlds excluded (outside the quantifier)"),
 "C02": ("exploration", "run-sim", "5.C02",
         "Lock-step acceptor over the step-function call log (order, background inheritance, nothing after the first non-pass, dry-run purity) plus outcome->status mapping for every executed step, including auto-retry histories (statuses depend on the last attempt only). Sampled worlds.",
         "the model decides 'has a definition' with its own regexes built from the abstract patterns; continue_after_failed_step worlds only check the mapping"),
 "C03": ("exploration", "run-sim", "5.C03",
         "Every element's status is checked bottom-up against the ACTUAL statuses of its children as produced by real runs (stop/abort remainders, hook errors, dry-run, de-selection, retries); the status classification table is checked once per process. Sampled worlds; cells reached are listed in the evidence.",
         "childless elements (and roll-ups containing one) are out of scope as the property says; elements whose own hook or cleanup failed are left to C12/C13"),
 "C09": ("exploration", "run-sim", "5.C09",
         "Executed-scenario set (events of hooks and step functions), statuses of de-selected scenarios and container roll-up compared with the model's tag inheritance + its own Boolean AST of the expression, with faults active elsewhere in the run. Sampled worlds.",
         "tag expression rendered from the model's AST in v2 / v1 (CNF) syntax; evaluation of the expression text itself is C07/C08 (not claimed)"),
 "C10": ("exploration", "run-sim", "5.C10",
         "Same acceptor, selection by file:LINE (every kind of line incl. 0 and past EOF, 1-3 per file, several files, @listfile on disk) and by -n patterns; executed set and skipped statuses vs the model's line->entity map from the renderer. Sampled worlds.",
         "non-consecutive repeats of one file are not generated; scenario names for -n are taken from the census"),
 "C12": ("fault_enumeration", "run-sim", "5.C12",
         "For each sampled world every hook invocation of the fault-free run is an injection point (x Exception/AssertionError), plus sampled pairs: each faulted run must be accepted by the must/may hook grammar (strict nesting, after-phase always paired, no body under a failed before-hook, no hooks for skipped elements / dry-run), mark exactly the element concerned, fail the run, and leave bystanders as in the fault-free run.",
         "enumeration is complete per sampled world (<= 40 invocations), worlds are sampled; KeyboardInterrupt inside hooks is not injected (unspecified)"),
 "C13": ("exploration", "run-sim", "5.C13",
         "Hooks and steps at every level set / shadow / delete / probe context attributes and register cleanups (plain, args, layer=, generator fixtures, failing setup) with some cleanups raising; every probe is compared with a dict-stack model and the cleanup log with the LIFO exactly-once model at the scope boundaries the acceptor tracks; execute_steps must restore text/table.",
         "history machine driving Context directly is not built yet: histories are those reachable through real runs"),
}

def main():
    from sim import props as P
    m = json.load(open(os.path.join(HERE, "MANIFEST.json")))
    checks = []
    for pid in sorted(P.PROPS):
        if pid not in TEXT:
            continue
        cat, engine, ref, text, note = TEXT[pid]
        checks.append({
            "property_id": pid,
            "quick_cmd": "./check %s --tier quick" % pid,
            "thorough_cmd": "./check %s --tier thorough" % pid,
            "evidence_file": "evidence/%s.json" % pid,
            "replay_cmd_template": "./check %s --replay {path}" % pid,
            "engine": engine,
            "level_claimed": {"category": cat, "text": text, "design_ref": "DESIGN.md section " + ref},
            "level_note": note,
            "technique": "deterministic simulation with fault injection (seeded worlds, scripted callback faults, reference-model acceptor)",
        })
    m["checks"] = checks
    m["engines"] = [{"name": "run-sim", "path": "sim/", "serves_properties": [c["property_id"] for c in checks],
                     "kind_free_text": "in-process deterministic simulation of the real behave runner: generated user code delegates to a scripted runtime; simulated clock/TTY; reference-model acceptor; ddmin + replay files"}]
    claimed = set(c["property_id"] for c in checks)
    na = [x for x in m["not_applicable"] if x["property_id"] in ("C04", "C07", "C08", "C19", "C20")]
    for pid in ["C%02d" % i for i in range(1, 21)]:
        if pid not in claimed and pid not in [x["property_id"] for x in na]:
            na.append({"property_id": pid, "reason": "check not registered yet (build in progress); planned under deterministic simulation, see DESIGN.md section 5"})
    m["not_applicable"] = sorted(na, key=lambda x: x["property_id"])
    m["notes"] = "Checks are registered one by one as they become sound on the unchanged tree; see DESIGN.md."
    json.dump(m, open(os.path.join(HERE, "MANIFEST.json"), "w"), indent=1)
    print("checks:", sorted(claimed))

main()
