#!/venv/bin/python
"""Regenerates MANIFEST.json from the registered checks (sim/props.py) and the texts below."""
import json, os, sys
HERE = os.path.dirname(os.path.abspath(__file__))
sys.path.insert(0, HERE); sys.path.insert(0, os.environ.get("VERIF_REPO", "/repo"))

TEXT = {
 "C01": ("exploration", "run-sim", "5.C01",
         "Seeded search over simulated runs: the real runner executes generated programs whose every callback is scripted (raise / interrupt / skip / pass); the exit code is compared with the reference model's reading of the realised events (no false green, no false red). For every 8th world the clause (plus any single raising hook or cleanup) is enumerated: each hook invocation and each registered cleanup of the run raises once and the verdict must turn red. A sample of worlds is re-executed as a real child process (python, real pipes) and its exit code compared. Sampling of worlds, so evidence not proof; that is the right level because the verdict is a 5-way disjunction over unbounded trees and fault positions.",
         "reference model sim/model.py; in-process run through Configuration + run_behave; auto-retry worlds excluded (outside the quantifier)"),
 "C02": ("exploration", "run-sim", "5.C02",
         "Lock-step acceptor over the step-function call log (order, background inheritance, nothing after the first non-pass, dry-run purity) plus outcome->status mapping for every executed step, including auto-retry histories (statuses depend on the last attempt only) and async step functions wrapped by async_run_until_complete that sleep, spawn tasks and hit behave's timeout under a virtual-time asyncio loop (no real sleeping). For every 40th world the first non-pass is placed at every step call-site x {assert, exception, not-implemented, interrupt, skip}. Sampled worlds.",
         "the model decides 'has a definition' with its own regexes built from the abstract patterns; continue_after_failed_step worlds only check the mapping"),
 "C03": ("exploration", "run-sim", "5.C03",
         "Every element's status is checked bottom-up against the ACTUAL statuses of its children as produced by real runs (stop/abort remainders, hook errors, dry-run, de-selection, retries); the status classification table is checked once per process. Sampled worlds; cells reached are listed in the evidence.",
         "childless elements (and roll-ups containing one) are out of scope as the property says; elements whose own hook or cleanup failed are left to C12/C13; hooks and steps also read feature/rule/scenario.status and walk the model mid-run (observer histories)"),
 "C09": ("exploration", "run-sim", "5.C09",
         "Executed-scenario set (events of hooks and step functions), statuses of de-selected scenarios and container roll-up compared with the model's tag inheritance + its own Boolean AST of the expression, with faults active elsewhere in the run. Sampled worlds.",
         "tag expression rendered from the model's AST in v2 / v1 (CNF) syntax; evaluation of the expression text itself is C07/C08 (not claimed)"),
 "C10": ("exploration", "run-sim", "5.C10",
         "Same acceptor, selection by file:LINE (every kind of line incl. 0 and past EOF, 1-3 per file, several files, @listfile on disk) and by -n patterns; executed set and skipped statuses vs the model's line->entity map from the renderer. Sampled worlds.",
         "non-consecutive repeats of one file are not generated; scenario names for -n are taken from the census"),
 "C12": ("fault_enumeration", "run-sim", "5.C12",
         "For each sampled world every hook invocation of the fault-free run is an injection point (x Exception/AssertionError), plus sampled pairs: each faulted run must be accepted by the must/may hook grammar (strict nesting, after-phase always paired, no body under a failed before-hook, no hooks for skipped elements / dry-run), mark exactly the element concerned, fail the run, and leave bystanders as in the fault-free run.",
         "enumeration is complete per sampled world (<= 40 invocations), worlds are sampled; a KeyboardInterrupt inside a hook is outside C12's quantifier (it is injected for C01/C13/C14/C16/C18, where only end-of-run obligations are checked)"),
 "C13": ("exploration", "run-sim", "5.C13",
         "Hooks and steps at every level set / shadow / delete / probe context attributes and register cleanups (plain, args, layer=, generator fixtures, failing setup) with some cleanups raising; every probe is compared with a dict-stack model and the cleanup log with the LIFO exactly-once model at the scope boundaries the acceptor tracks; execute_steps must restore text/table. For every 4th world each registered cleanup raises once (plus a pair). A context history machine drives a real Context directly through seeded operation histories (push/pop/set/get/delete/contains/set-root/use_or_assign/use_or_create/add_cleanup variants/use_fixture variants, user and behave mode) with ALL subsets of raising cleanups for histories with <= 4 cleanups.",
         "the context machine uses Context._push/_pop/_do_cleanups/_set_root_attribute, the calls the runner itself makes; after a KeyboardInterrupt inside a hook the scopes cut short must still run their cleanups (innermost first, LIFO, once)"),
 "C14": ("exploration", "run-sim", "5.C14",
         "After every simulated run a census of the real model is compared with (a) the text printed by SummaryReporter.end(), parsed for all five formats, (b) SummaryCollector fed with the same features and (c) all format functions applied to the reporter's final tables; listed failing/errored scenarios must equal the census sets. Sampled worlds covering untested remainders, hook errors, dry-run, rules, outline rows and per-scenario background copies.",
         "the summary parser is the oracle's own (regex over the documented line shapes); durations are ignored"),
 "C15": ("exploration", "run-sim", "5.C15",
         "Two recording formatters (first and last position) around random subsets/orders of the built-in formatters: event grammar, agreement between recorders, one match+result per step the model says was processed; JSON re-read with json.loads and compared element by element with the census (status on its own element, tables, doc-strings) and read back through behave.json_parser; plain output re-parsed step by step; progress / progress2 mark strings re-read per feature line. No built-in formatter may raise.",
         "progress3 and pretty output are only checked for not raising"),
 "C16": ("exploration", "run-sim", "5.C16",
         "--junit worlds with names, messages and captured output drawn from a hostile alphabet (XML metacharacters, ']]>', C0/C1 controls, astral characters, ANSI escapes): every TESTS-*.xml must parse with expat, its test cases must be the feature's scenarios with their final status, counters must equal the numbers of entries, failed/errored cases must carry an entry naming the step or hook.",
         "names in feature files cannot carry control characters (line based format); lone surrogates are not generated"),
 "C17": ("exploration", "run-sim (two-run histories)", "5.C17",
         "Run 1 writes the rerun file (sometimes over a stale one) under step failures, exceptions, undefined steps and hook errors; its content must equal the census of failed/error-class scenarios in run order, or the file must be gone when there are none. Run 2 is given '@file' with every fault removed and must execute exactly the listed scenarios and skip the rest.",
         "second run reuses the model's location selection (C10) as oracle"),
 "C18": ("exploration", "run-sim", "5.C18",
         "Steps, step hooks and nested steps print unique markers to stdout/stderr/logging under all 8 capture switch combinations and every outcome class (incl. KeyboardInterrupt, step-hook errors): the simulator-owned TTYs record each chunk with the callback active at that moment; probes at every callback check the identity of sys.stdout/sys.stderr and the root logger's handlers/level; failure reports must contain exactly the markers of their own scenario; with a switch off the markers must arrive on the TTY in order. For every 40th world every step call-site x outcome class is enumerated; every 211th world is re-run as a real child process (real pipes) and its per-stream marker sets compared.",
         "in-process TTY objects stand for the real streams; with --logging-filter a log marker is required only if every reading of the documented include/exclude rule keeps it; a KeyboardInterrupt is also injected inside hooks (streams and root logger must be restored by the end of the run)"),
 "C05": ("fault_enumeration", "file-fault simulator", "5.C05",
         "The text the parser consumes is treated as storage under fault: for every sampled valid rendered document ALL (line position x fault kind) combinations are enumerated - torn write after/inside each line, lost line, duplicated line, swapped neighbours - plus every catalogued grammar violation at every position where it is one, delivered through parse_file on the scratch disk, parse_feature, parse_rule, parse_scenario, parse_steps and parse_tags, plus multi-language line soups. The call must return or raise ParserError with a line inside the text (the injected line for catalogued faults); anything else is a violation.",
         "the parser is a pure function: there is no schedule dimension, the claim rests on the property being stated over injected faults on the consumed text; documents use English keywords (other languages in soups only)"),
 "C11": ("exploration", "registry history machine + run-sim", "5.C11",
         "A real StepRegistry is driven through seeded registration histories (three matcher kinds, matcher switches inside and across generated step modules on disk, custom type converters with injected faults, deliberate overlaps, module re-loads) and probed with lookups built from each pattern (exact instance, wrong case, prefix/suffix, changed literal); a reference registry with the model's own anchored regexes predicts the chosen definition, every Argument (value, name, span, original) and where AmbiguousStep is required. Run-sim worlds add the end-to-end part: the shim records which definition the real Step.run dispatched with which positional/keyword arguments.",
         "re0 is not generated (cucumber expressions only in the registry machine, with {int} {float} {word}); an identical pattern registered twice may or may not be rejected (the statement is silent); cfparse cardinality fields (? + *) on the custom types, re-registered converters and lookups between module loads are part of the histories"),
 "C06": ("exploration", "run-sim + outline histories", "5.C06",
         "Outline-dense worlds; the row scenarios of the real model after the run (count, order, name under the configured annotation schema, tags incl. examples-block tags and parametrised tags, row line, step text / doc-string / step-table after substitution) are compared with the model's own expansion of the abstract outline; histories: a hook changes an examples table through the table API (add_row / add_column) before the outline runs and the expansion must be rebuilt; a step mutates its own context.table mid-run and neither later rows nor the template may change.",
         "the expansion oracle uses sequential textual replacement of <column> by the row's cell, as the statement says; reset()+second run of a whole model is not driven"),
}

def main():
    from sim import props as P
    m = json.load(open(os.path.join(HERE, "MANIFEST.json")))
    checks = []
    for pid in sorted(P.PROPS):
        if pid not in TEXT:
            continue
        cat, engine, ref, text, note = TEXT[pid]
        engine_path = {"file-fault simulator": "sim/parsersim.py"}.get(engine, "sim/")
        checks.append({
            "property_id": pid,
            "quick_cmd": "./check %s --tier quick" % pid,
            "thorough_cmd": "./check %s --tier thorough" % pid,
            "evidence_file": "evidence/%s.json" % pid,
            "replay_cmd_template": "./check %s --replay {path}" % pid,
            "engine": engine,
            "level_claimed": {"category": cat, "text": text, "design_ref": "DESIGN.md section " + ref},
            "level_note": note,
            "technique": "deterministic simulation with fault injection (seeded worlds, scripted callback faults, reference-model acceptor)",
        })
    m["checks"] = checks
    m["notes"] = ("15 of 20 properties claimed (run-sim, file-fault simulator, registry / context history machines); "
                  "known findings and repaired defects in known_findings.json (two recorded findings: C03, C17; 24 fix commits in /repo); "
                  "seeded changes and mutants with the measured results in seeded/ and selftest/sensitivity_results.json; see DESIGN.md.")
    m["engines"] = [{"name": "run-sim", "path": "sim/", "serves_properties": [c["property_id"] for c in checks if c["engine"] != "file-fault simulator"],
                     "kind_free_text": "in-process deterministic simulation of the real behave runner: generated user code delegates to a scripted runtime; simulated clock/TTY; reference-model acceptor; ddmin + replay files"},
                    {"name": "file-fault simulator", "path": "sim/parsersim.py", "serves_properties": ["C05"],
                     "kind_free_text": "enumerates storage faults (torn/lost/duplicated/reordered lines) and catalogued grammar faults over rendered feature documents and feeds them to every parser entry point"}]
    claimed = set(c["property_id"] for c in checks)
    na = [x for x in m["not_applicable"] if x["property_id"] in ("C04", "C07", "C08", "C19", "C20")]
    for pid in ["C%02d" % i for i in range(1, 21)]:
        if pid not in claimed and pid not in [x["property_id"] for x in na]:
            na.append({"property_id": pid, "reason": "check not registered yet (build in progress); planned under deterministic simulation, see DESIGN.md section 5"})
    m["not_applicable"] = sorted(na, key=lambda x: x["property_id"])
    m["notes"] = "Checks are registered one by one as they become sound on the unchanged tree; see DESIGN.md."
    json.dump(m, open(os.path.join(HERE, "MANIFEST.json"), "w"), indent=1)
    print("checks:", sorted(claimed))

main()
