# -*- coding: utf-8 -*-
"""Driver: seeded search over worlds x fault plans on 16 worker processes,
known-finding matching, minimisation (ddmin), replay files, evidence."""
from __future__ import annotations

import copy
import hashlib
import json
import os
import shutil
import subprocess
import sys
import time
import traceback

HERE = os.path.dirname(os.path.dirname(os.path.abspath(__file__)))
REPO = os.environ.get("VERIF_REPO", "/repo")


def _setup_path():
    if REPO not in sys.path:
        sys.path.insert(0, REPO)
    if HERE not in sys.path:
        sys.path.insert(0, HERE)


# ---------------------------------------------------------------------------
# known findings
# ---------------------------------------------------------------------------
def load_known():
    p = os.path.join(HERE, "known_findings.json")
    if not os.path.exists(p):
        return []
    with open(p) as f:
        return json.load(f)["findings"]


def is_known(known, v):
    for k in known:
        if k.get("status") != "known":
            continue
        if k["property"] == v["prop"] and k["rule"] == v["rule"] and k["key"] == v["key"]:
            return k
    return None


# ---------------------------------------------------------------------------
# signatures
# ---------------------------------------------------------------------------
def run_signature(world, hist):
    parts = [str(hist["rc"]), (hist.get("escaped") or {}).get("type") or ""]
    for e in hist["events"]:
        parts.append("%s:%s:%s:%d" % (e["kind"][0], (e.get("name") or "")[:12],
                                      (e.get("raised") or "")[:6], e["depth"]))
    cfg = world["cfg"]
    parts.append(json.dumps([cfg.get("stop"), cfg.get("dry_run"), cfg.get("wip"),
                             bool(cfg.get("tagexpr")), bool(cfg.get("names")),
                             bool(cfg.get("paths")), cfg.get("capture")], sort_keys=True))
    return hashlib.sha1("|".join(parts).encode("utf-8")).hexdigest()[:16]


def is_nontrivial(world, hist):
    if any(e.get("raised") for e in hist["events"]):
        return True
    if hist.get("escaped"):
        return True
    for f in hist["census"]:
        if _has_status(f, ("skipped", "untested", "undefined")):
            return True
    return False


def _has_status(node, names):
    if node.get("status") in names:
        return True
    for s in node.get("steps", []):
        if s["status"] in names:
            return True
    return any(_has_status(x, names) for x in node.get("items", []))


def sample_of(world, hist, extra=None):
    s = {"seed": world["seed"], "argv": hist.get("argv"),
         "features": {p: t for p, t in list(world["files"].items())[:2]},
         "hooks": world["hooks"],
         "events": ["%s %s %s %s%s" % (e["kind"], e.get("name") or "", e.get("eid") or e.get("scen") or e.get("cid") or "",
                                       e.get("tag") or "", (" !" + e["raised"]) if e.get("raised") else "")
                    for e in hist["events"][:40]],
         "rc": hist["rc"]}
    if extra:
        s.update(extra)
    return s


# ---------------------------------------------------------------------------
# worker
# ---------------------------------------------------------------------------
class Stats(object):
    def __init__(self):
        self.runs = 0
        self.worlds = 0
        self.sigs = set()
        self.nontrivial_sigs = set()
        self.fired = {}
        self.probes = {}
        self.sim_seconds = 0.0
        self.clock_jumps = 0
        self.invalid_worlds = 0
        self.samples = []
        self.seams = None
        self.cells = {}

    def note_run(self, world, hist):
        self.runs += 1
        sig = run_signature(world, hist)
        self.sigs.add(sig)
        if is_nontrivial(world, hist):
            self.nontrivial_sigs.add(sig)
        for k, n in hist.get("fired", {}).items():
            self.fired[k] = self.fired.get(k, 0) + n
        for e in hist["events"]:
            if e.get("raised"):
                k = "raised:%s:%s" % (e["kind"], e.get("name") if e["kind"] == "hook" else e["raised"])
                self.fired[k] = self.fired.get(k, 0) + 1
        self.sim_seconds += hist.get("sim_seconds", 0.0)
        if hist.get("async_virtual_seconds"):
            self.probes["async-virtual-seconds"] = self.probes.get("async-virtual-seconds", 0) + int(hist["async_virtual_seconds"])
            self.probes["async-clock-jumps"] = self.probes.get("async-clock-jumps", 0) + hist.get("async_clock_jumps", 0)
        self.clock_jumps += hist.get("clock_jumps", 0)
        if hist.get("config_error"):
            self.invalid_worlds += 1
        self.seams = hist.get("seams_active")

    def probe(self, name, n=1):
        self.probes[name] = self.probes.get(name, 0) + n

    def to_json(self):
        return {"runs": self.runs, "worlds": self.worlds, "sigs": sorted(self.sigs),
                "nontrivial_sigs": sorted(self.nontrivial_sigs), "fired": self.fired,
                "probes": self.probes, "sim_seconds": self.sim_seconds,
                "clock_jumps": self.clock_jumps, "invalid_worlds": self.invalid_worlds,
                "samples": self.samples[:3], "seams": self.seams, "cells": self.cells}


def worker_main(prop, seeds, hashseed, out_path, tier):
    _setup_path()
    from . import props as P
    from . import runtime as R
    import faulthandler
    faulthandler.enable()
    faulthandler.dump_traceback_later(int(os.environ.get("VERIF_WORKER_TIMEOUT", "3000")), exit=True)
    spec = P.PROPS[prop]
    os.environ["VERIF_CURRENT_PROP"] = prop
    root = os.path.join(R.scratch_root(), "behave-sim-%d" % os.getpid())
    os.makedirs(root, exist_ok=True)
    stats = Stats()
    found = []      # violation records (already classified known / new)
    known = load_known()
    digests = {}
    t0 = time.time()
    budget = float(os.environ.get("VERIF_WORKER_BUDGET", "1e9"))
    result = {"ok": False}
    try:
        pre = spec.get("startup")
        if pre:
            for v in pre():
                found.append(_finish_violation(prop, None, v, known, spec, root, None))
        n_new = 0
        for seed in seeds:
            if time.time() - t0 > budget:
                break
            stats.worlds += 1
            vs, dig = spec["evaluate"](seed, hashseed, root, stats)
            digests[seed] = dig
            for (world, v, ctx) in vs:
                if v["prop"] != prop:
                    continue
                rec = _finish_violation(prop, world, v, known, spec, root, ctx,
                                        minimise=(n_new < 2))
                if not rec["known"]:
                    n_new += 1
                found.append(rec)
            if n_new >= 3:
                break
        # determinism self-check: re-run the first seeds after different predecessors
        mism = []
        k = min(len(digests), int(os.environ.get("VERIF_DET_SEEDS", "4")))
        dstats = Stats()
        for seed in list(digests)[:k][::-1]:
            _vs, dig = spec["evaluate"](seed, hashseed, root, dstats)
            if dig != digests[seed]:
                mism.append(seed)
        result = {"ok": True, "stats": stats.to_json(), "found": found,
                  "determinism": {"rechecked": k, "mismatch": mism},
                  "digests": {str(s): d for s, d in list(digests.items())[:50]},
                  "wall": time.time() - t0, "hashseed": hashseed}
    except BaseException as e:
        result = {"ok": False, "error": "%s: %s" % (type(e).__name__, e),
                  "trace": traceback.format_exc()}
    finally:
        shutil.rmtree(root, ignore_errors=True)
        with open(out_path, "w") as f:
            json.dump(result, f, default=repr)
    return 0 if result.get("ok") else 2


def _finish_violation(prop, world, v, known, spec, root, ctx, minimise=True):
    k = is_known(known, v)
    rec = {"prop": v["prop"], "rule": v["rule"], "key": v["key"],
           "detail": v.get("detail"), "seed": world["seed"] if world else None,
           "known": bool(k), "what": k["what"] if k else None, "replay": None}
    if k or world is None:
        return rec
    # minimise + write replay
    from . import minimise as MIN
    w2 = world
    if v["rule"] == "hang":
        minimise = False        # every probe of the minimiser would wait for the watchdog again
    if minimise and spec.get("reproduce"):
        try:
            if spec.get("minimise"):
                w2 = spec["minimise"](world, v, spec, root, ctx)
            else:
                w2 = MIN.ddmin(world, v, spec, root, ctx)
        except Exception:
            w2 = world
    rdir = os.environ.get("VERIF_REPLAY_DIR") or os.path.join(HERE, "replays")
    os.makedirs(rdir, exist_ok=True)
    name = "%s-%s-%s.json" % (prop, world["seed"], hashlib.sha1(
        (v["rule"] + v["key"]).encode("utf-8")).hexdigest()[:8])
    path = os.path.join(rdir, name)
    with open(path, "w") as f:
        json.dump({"property": prop, "violation": {"prop": v["prop"], "rule": v["rule"],
                                                   "key": v["key"], "detail": v.get("detail")},
                   "ctx": ctx, "world": w2, "hashseed": w2.get("hashseed", 0),
                   "original_seed": world["seed"]}, f, indent=1, default=repr, sort_keys=True)
    rec["replay"] = path
    return rec


# ---------------------------------------------------------------------------
# parent
# ---------------------------------------------------------------------------
def run_check(prop, tier, seed, replay=None):
    _setup_path()
    from . import props as P
    if prop not in P.PROPS:
        print("unknown property %s" % prop)
        return 2
    spec = P.PROPS[prop]
    if replay:
        return run_replay(prop, spec, replay)
    t0 = time.time()
    nworkers = int(os.environ.get("VERIF_WORKERS", str(min(16, os.cpu_count() or 4))))
    per_worker = spec["worlds"][tier]
    base = seed * 1000003
    outdir = os.path.join(_scratch(), "behave-sim-parent-%d" % os.getpid())
    os.makedirs(outdir, exist_ok=True)
    procs = []
    wall_cap = {"quick": 420, "thorough": 3400}[tier]
    budget = {"quick": 75, "thorough": 900}[tier]
    if os.environ.get("VERIF_BUDGET_S"):
        budget = float(os.environ["VERIF_BUDGET_S"])      # (operator override, e.g. a shorter thorough sweep)
    for j in range(nworkers):
        seeds = "%d:%d:%d" % (base + j, per_worker, nworkers)
        out = os.path.join(outdir, "w%d.json" % j)
        env = dict(os.environ)
        env["PYTHONHASHSEED"] = str(j % 4)
        env["PYTHONUTF8"] = "1"
        env["PYTHONDONTWRITEBYTECODE"] = "1"
        env["VERIF_WORKER_BUDGET"] = str(budget if os.environ.get("VERIF_BUDGET_S") else spec.get("budget", {}).get(tier, budget))
        env["VERIF_WORKER_TIMEOUT"] = str(wall_cap)
        env["VERIF_TIER"] = tier
        env.pop("BEHAVE_VERIF_SIM", None)
        cmd = [sys.executable, os.path.join(HERE, "check"), "--worker", prop,
               "--seeds", seeds, "--hashseed", str(j % 4), "--out", out, "--tier", tier]
        procs.append((j, out, subprocess.Popen(cmd, env=env, cwd=HERE,
                                               stdout=subprocess.PIPE, stderr=subprocess.STDOUT)))
    results = []
    harness_errors = []
    for j, out, pr in procs:
        try:
            o, _ = pr.communicate(timeout=wall_cap + 30)
        except subprocess.TimeoutExpired:
            pr.kill()
            o, _ = pr.communicate()
            harness_errors.append("worker %d: wall timeout" % j)
            continue
        if pr.returncode != 0 or not os.path.exists(out):
            tail = (o or b"").decode("utf-8", "replace")[-1500:]
            msg = "worker %d: exit %s\n%s" % (j, pr.returncode, tail)
            if os.path.exists(out):
                try:
                    msg += "\n" + json.load(open(out)).get("trace", "")
                except Exception:
                    pass
            harness_errors.append(msg)
            continue
        with open(out) as f:
            r = json.load(f)
        if not r.get("ok"):
            harness_errors.append("worker %d: %s\n%s" % (j, r.get("error"), r.get("trace")))
            continue
        results.append(r)
    shutil.rmtree(outdir, ignore_errors=True)
    return aggregate(prop, spec, tier, seed, results, harness_errors, time.time() - t0, nworkers)


def _scratch():
    return "/dev/shm" if os.path.isdir("/dev/shm") and os.access("/dev/shm", os.W_OK) \
        else os.environ.get("TMPDIR", "/tmp")


def aggregate(prop, spec, tier, seed, results, harness_errors, wall, nworkers):
    runs = sum(r["stats"]["runs"] for r in results)
    worlds = sum(r["stats"]["worlds"] for r in results)
    sigs = set()
    nsigs = set()
    fired = {}
    probes = {}
    cells = {}
    sim_seconds = 0.0
    jumps = 0
    invalid = 0
    samples = []
    seams = None
    det_re = 0
    det_mis = []
    for r in results:
        st = r["stats"]
        sigs.update(st["sigs"])
        nsigs.update(st["nontrivial_sigs"])
        for k, n in st["fired"].items():
            fired[k] = fired.get(k, 0) + n
        for k, n in st["probes"].items():
            probes[k] = probes.get(k, 0) + n
        for k, n in st.get("cells", {}).items():
            cells[k] = cells.get(k, 0) + n
        sim_seconds += st["sim_seconds"]
        jumps += st["clock_jumps"]
        invalid += st["invalid_worlds"]
        samples.extend(st["samples"][:1])
        seams = seams or st["seams"]
        det_re += r["determinism"]["rechecked"]
        det_mis.extend(r["determinism"]["mismatch"])
    found = [f for r in results for f in r["found"]]
    new = [f for f in found if not f["known"]]
    known_hits = {}
    for f in found:
        if f["known"]:
            known_hits.setdefault((f["rule"], f["key"]), [0, f["what"]])[0] += 1
    det_note = None
    if det_mis and new:
        # violations were found AND re-running the first worlds after other predecessors gave other
        # histories: the code under test carries state from one run to the next inside one
        # interpreter (a legitimate multi-run history).  The violations stand (each replay file is
        # re-executed in a fresh process); the mismatch is reported with them.
        det_note = "NOTE: runs are not independent of their predecessors in one interpreter (digest mismatch for seeds %s)" % det_mis[:6]
    elif det_mis:
        harness_errors.append("determinism self-check mismatch for seeds %s" % det_mis[:10])
    level = spec["level"]
    rate = runs / wall * 3600 if wall > 0 else 0
    coverage = {
        "evaluations": runs,
        "distinct_nontrivial": len(nsigs),
        "rule": spec["rule_text"],
        "samples": samples[:4] or [{"note": "no sample recorded"}],
        "worlds": worlds,
        "distinct_signatures": len(sigs),
        "runs_per_hour": int(rate),
        "simulated_seconds": round(sim_seconds, 3),
        "clock_jumps_injected": jumps,
        "faults_fired": dict(sorted(fired.items())),
        "probes_hit": dict(sorted(probes.items())),
        "cells_reached": dict(sorted(cells.items())),
        "invalid_worlds_skipped": invalid,
        "seams_active": seams,
        "hash_seed_classes": sorted(set(r["hashseed"] for r in results)),
        "workers": nworkers,
        "determinism_selfcheck": {"reexecuted": det_re, "mismatches": len(det_mis)},
        "components_real": ["behave.* (configuration, runner, model, parser, tag expressions, matchers, "
                            "registry, capture, fixtures, formatters, reporters)", "parse", "parse_type",
                            "cucumber_tag_expressions", "file system (tmpfs scratch dir)", "logging"],
        "components_stub": ["clock (SimClock)", "hostname / terminal size", "stdout/stderr TTY objects",
                            "all user code (generated hook/step/fixture/cleanup shims)"],
        "known_findings_hit": [{"rule": k[0], "key": k[1], "count": v[0]} for k, v in sorted(known_hits.items())],
        "exhaustive": False,
    }
    coverage.update(spec.get("coverage_extra", {}))
    evidence = {"property_id": prop, "tier": tier, "seed": seed, "level": level,
                "coverage": coverage, "assumptions": spec["assumptions"],
                "wall_s": round(wall, 2), "violations": len(new)}
    edir = os.environ.get("VERIF_EVIDENCE_DIR") or os.path.join(HERE, "evidence")
    os.makedirs(edir, exist_ok=True)
    with open(os.path.join(edir, "%s.json" % prop), "w") as f:
        json.dump(evidence, f, indent=1, sort_keys=True, default=repr)
    print("check %s tier=%s seed=%d: %d runs (%d worlds) in %.1fs, %d distinct signatures (%d non-trivial), "
          "%d violation(s), %d known-finding hit(s)" % (prop, tier, seed, runs, worlds, wall, len(sigs),
                                                        len(nsigs), len(new), sum(v[0] for v in known_hits.values())))
    for (rule, key), (n, what) in sorted(known_hits.items()):
        print("KNOWN-FINDING: property=%s %s [%s / %s] (seen %d times)" % (prop, what, rule, key, n))
    if harness_errors and not (new and all("wall timeout" in h or "exit -" in h or "determinism" in h for h in harness_errors)):
        print("HARNESS-ERROR:")
        for h in harness_errors[:5]:
            print(h)
        return 2
    if new:
        if det_note:
            print(det_note)
        for h in harness_errors[:3]:
            print("NOTE: " + h.split("\n")[0][:200])
        seen = set()
        for f in new:
            fp = (f["rule"], f["key"])
            if fp in seen:
                continue
            seen.add(fp)
            print("VIOLATION property=%s replay=%s" % (prop, f["replay"]))
            print("  rule=%s key=%s seed=%s detail=%s" % (f["rule"], f["key"], f["seed"],
                                                        json.dumps(f["detail"], default=repr)[:600]))
        return 1
    if runs == 0:
        print("HARNESS-ERROR: nothing was executed")
        return 2
    return 0


def run_replay(prop, spec, path):
    with open(path) as f:
        rp = json.load(f)
    want_hs = str(rp.get("hashseed", 0))
    if os.environ.get("PYTHONHASHSEED") != want_hs or os.environ.get("PYTHONUTF8") != "1":
        env = dict(os.environ)
        env["PYTHONHASHSEED"] = want_hs
        env["PYTHONUTF8"] = "1"
        env["PYTHONDONTWRITEBYTECODE"] = "1"
        return subprocess.call([sys.executable, os.path.join(HERE, "check"), prop, "--replay", path], env=env, cwd=HERE)
    _setup_path()
    os.environ["VERIF_CURRENT_PROP"] = prop
    from . import runtime as R
    root = os.path.join(R.scratch_root(), "behave-sim-replay-%d" % os.getpid())
    os.makedirs(root, exist_ok=True)
    try:
        vs = spec["reproduce"](rp["world"], root, rp.get("ctx"))
    finally:
        shutil.rmtree(root, ignore_errors=True)
    want = rp["violation"]
    hit = [v for v in vs if v["prop"] == want["prop"] and v["rule"] == want["rule"] and v["key"] == want["key"]]
    if hit:
        print("VIOLATION property=%s replay=%s" % (prop, path))
        print("  reproduced rule=%s key=%s detail=%s" % (want["rule"], want["key"],
                                                        json.dumps(hit[0].get("detail"), default=repr)[:800]))
        return 1
    print("replay %s: violation %s/%s NOT reproduced (%d other violation(s))" % (path, want["rule"], want["key"], len(vs)))
    return 0
