# -*- coding: utf-8 -*-
"""C11: registry history machine.

Drives a real behave StepRegistry (fresh instance) through seeded histories of
  use_step_matcher / register_type / registration via the public decorators
  from generated step modules on the scratch disk / re-loading a module /
  lookups (step type x text) / converter faults
and compares with a reference registry: ordered lists per step type plus the
model's own anchored regexes built from the abstract patterns.
"""
from __future__ import annotations

import hashlib
import os
import random
import re

from . import world as W
from .oracles import V


def model_regex(d, for_ambiguity=False):
    return W.def_regex(d)


def pattern_text(d):
    p = W.render_pattern(d)
    return p


def gen_history(rng):
    """A registration history: list of modules, each a list of ops."""
    lib = W.gen_steplib(rng, "rich")
    defs = lib["defs"]
    # the fourth matcher kind: cucumber expressions ({int} {float} {word}, positional only, also
    # patterns without any parameter)
    for d in defs:
        if d["matcher"] == "parse" and rng.random() < 0.35 and \
                all(t[0] == "lit" or (t[0] == "fld" and t[2] in ("d", "f", "w") and not W.tok_card(t)) for t in d["tokens"]):
            d["matcher"] = "cuke"
            for t in d["tokens"]:
                if t[0] == "fld":
                    t[1] = ""
    # add deliberate same-type overlaps (must be rejected as ambiguous)
    extra = []
    for d in list(defs):
        r = rng.random()
        if r < 0.25:
            # an INSTANCE of d's pattern (literal where d has an untyped field), same type, later
            toks = []
            changed = False
            for tok in d["tokens"]:
                if tok[0] == "fld" and tok[2] == "" and not changed and d["matcher"] != "re":
                    toks.append(["lit", "KLM"])
                    changed = True
                else:
                    toks.append(list(tok))
            if changed:
                typ = d["type"] if rng.random() < 0.6 else rng.choice(["given", "when", "then", "step"])
                # the colliding registration may come after a use_step_matcher() switch
                mt = d["matcher"] if rng.random() < 0.5 else rng.choice(["parse", "cfparse", "re"])
                if (mt != "cfparse" and any(W.tok_card(t) for t in toks)) or \
                        (mt == "re" and any(t[0] == "fld" and t[2] in ("Color", "Num") for t in toks)):
                    mt = d["matcher"]       # cardinality needs cfparse, custom types need a parse matcher
                extra.append({"id": "x%d" % len(extra), "type": typ, "matcher": mt,
                              "tokens": toks, "module": d["module"], "after": d["id"], "async": False})
        elif r < 0.4:
            # identical pattern, different function, same or other type
            typ = d["type"] if rng.random() < 0.5 else rng.choice(["given", "when", "then", "step"])
            extra.append({"id": "x%d" % len(extra), "type": typ, "matcher": d["matcher"],
                          "tokens": [list(t) for t in d["tokens"]], "module": d["module"],
                          "after": d["id"], "async": False})
    order = []
    for d in defs:
        order.append(d)
        for x in extra:
            if x["after"] == d["id"]:
                order.append(x)
    nmods = len(lib["modules"])
    mods = [[d for d in order if d["module"] == mi] for mi in range(nmods)]
    # every module registers the custom type again; some with ANOTHER converter under the same
    # name (documented register_type use): definitions made afterwards are converted by that one
    lib["conv_variants"] = [rng.choice([0, 0, 1, 2]) for _ in range(nmods)]
    for mi, defs_ in enumerate(mods):
        for d in defs_:
            d["conv_variant"] = lib["conv_variants"][mi]
    return lib, mods


def render_module(mod_defs, mi, reload_marker, conv_variant=0):
    lines = ["# generated registry-machine module %d" % mi,
             "from behave import register_type",
             "def _conv_color(text):",
             "    if text == 'BAD':",
             "        raise ValueError('cannot convert BAD')",
             "    if text == 'WORSE':",
             "        raise KeyError(text)",
             "    if text == 'ASSERT':",
             "        raise AssertionError('converter asserts')",
             "    return text.lower()%s" % (" + '#%d'" % conv_variant if conv_variant else ""),
             "_conv_color.pattern = r'[A-Z]+'",
             "def _conv_num(text):",
             "    return int(text)",
             "_conv_num.pattern = r'\\d+'",
             "register_type(Color=_conv_color, Num=_conv_num)", ""]
    cur = "parse"       # the default matcher is in force at the start of every module
    for d in mod_defs:
        if d["matcher"] != cur:
            lines.append("use_cuke()" if d["matcher"] == "cuke" else "use_step_matcher(%r)" % d["matcher"])
            cur = d["matcher"]
        lines.append("try:")
        lines.append("    @%s(%r)" % (d["type"], W.render_pattern(d)))
        lines.append("    def %s(context, *args, **kwargs):" % d["id"])
        lines.append("        return (%r, args, kwargs)" % d["id"])
        lines.append("    REG_LOG.append((%r, 'ok'))" % d["id"])
        lines.append("except Exception as e:")
        lines.append("    REG_LOG.append((%r, type(e).__name__))" % d["id"])
        lines.append("")
    return "\n".join(lines) + "\n"


def evaluate(seed, hashseed, root, stats):
    from behave.step_registry import StepRegistry, setup_step_decorators, AmbiguousStep
    from behave import matchers as BM
    from behave.runner_util import exec_file
    from behave.model import Step
    from behave.api.step_matchers import use_step_matcher
    rng = random.Random(seed)
    out = []
    dig = hashlib.sha1()
    lib, mods = gen_history(rng)
    world = {"seed": seed, "hashseed": hashseed, "registry_case": True}

    def viol(rule, key, **detail):
        v = V("C11", rule, key, **detail)
        out.append((dict(world, detail_key=key), v, None))

    BM.get_step_matcher_factory().reset()
    try:
        BM.ParseMatcher.TYPE_REGISTRY.clear()
    except Exception:
        pass
    reg = StepRegistry()
    # reference registry
    ref = {"given": [], "when": [], "then": [], "step": []}
    reg_log = []
    os.makedirs(os.path.join(root, "regmods"), exist_ok=True)
    paths = []
    for mi, mod_defs in enumerate(mods):
        p = os.path.join(root, "regmods", "mod_%d.py" % mi)
        with open(p, "w", encoding="utf-8") as f:
            f.write(render_module(mod_defs, mi, 0, lib["conv_variants"][mi]))
        paths.append(p)
    nops = 0

    def load(mi):
        from behave.cucumber_expression import use_step_matcher_for_cucumber_expressions
        g = {"use_step_matcher": use_step_matcher, "REG_LOG": reg_log,
             "use_cuke": use_step_matcher_for_cucumber_expressions}
        setup_step_decorators(g, reg)
        BM.use_current_step_matcher_as_default() if False else None
        exec_file(paths[mi], g)
        BM.use_default_step_matcher()

    accepted_ids = set()
    for mi, mod_defs in enumerate(mods):
        before = len(reg_log)
        try:
            load(mi)
        except Exception as e:
            viol("exception-escaped", "module-load:%s" % type(e).__name__, error=str(e)[:200])
            return _finish(out, dig, stats, nops)
        got = dict(reg_log[before:])
        for d in mod_defs:
            nops += 1
            # model: ambiguous iff an accepted definition OF THAT TYPE matches the new pattern text
            ptxt = pattern_text(d)
            if d["matcher"] == "re":
                ptxt = "^%s$" % ptxt
            amb = None          # MUST be rejected: an accepted definition of that type matches the pattern text
            amb_may = None      # identical pattern text: the statement does not say (either answer accepted)
            raw_ptxt = pattern_text(d)
            for ex in ref[d["type"]]:
                if model_regex(ex).match(raw_ptxt):
                    amb = ex["id"]
                    break
                if pattern_text(ex) == raw_ptxt and ex["matcher"] == d["matcher"]:
                    amb_may = ex["id"]
            res = got.get(d["id"])
            if amb is None and amb_may is not None:
                stats.fired["register:identical-pattern(%s)" % res] = \
                    stats.fired.get("register:identical-pattern(%s)" % res, 0) + 1
                if res == "ok":
                    ref[d["type"]].append(d)
                    accepted_ids.add(d["id"])
                elif res != "AmbiguousStep":
                    viol("ambiguity-spurious", "%s:%s:%s" % (d["type"], d["matcher"], res), new=raw_ptxt, result=res)
                dig.update(("%s:%s|" % (d["id"], res)).encode("ascii"))
                continue
            stats.fired["register:%s" % ("ambiguous" if amb else "accepted")] = \
                stats.fired.get("register:%s" % ("ambiguous" if amb else "accepted"), 0) + 1
            dig.update(("%s:%s|" % (d["id"], res)).encode("ascii"))
            if amb is not None:
                if res != "AmbiguousStep":
                    viol("ambiguity-missed", "%s:%s-vs-%s" % (d["type"], d["matcher"], _kind(d, mods, amb)),
                         new=W.render_pattern(d), existing=amb, result=res)
            else:
                if res != "ok":
                    viol("ambiguity-spurious", "%s:%s:%s" % (d["type"], d["matcher"], res),
                         new=W.render_pattern(d), result=res,
                         registered=[W.render_pattern(x) for x in ref[d["type"]]])
                else:
                    ref[d["type"]].append(d)
                    accepted_ids.add(d["id"])
        # registry contents must equal the reference lists, in order
        for typ in ("given", "when", "then", "step"):
            real = [m.func.__name__ for m in reg.steps[typ]]
            want = [d["id"] for d in ref[typ]]
            if real != want:
                viol("wrong-definition", "registry-order:%s" % typ, real=real, model=want)
                return _finish(out, dig, stats, nops)
        # lookups BETWEEN registrations (a step is looked up while later modules are not loaded yet):
        # they must not change what the registry holds
        so_far = [d for t in ref for d in ref[t]]
        for _ in range(min(3, len(so_far))):
            d = rng.choice(so_far)
            text = W.instantiate(rng, d)
            types = ["given", "when", "then"] if d["type"] == "step" else [d["type"]]
            stype = rng.choice(types)
            chosen = None
            for cand in ref[stype] + ref["step"]:
                if model_regex(cand).match(text):
                    chosen = cand
                    break
            nops += 1
            stats.fired["lookup:mid-history"] = stats.fired.get("lookup:mid-history", 0) + 1
            try:
                match = reg.find_match(Step(u"<sim>", 1, u"Given", stype, text))
            except Exception as e:
                viol("exception-escaped", "find_match:%s" % type(e).__name__, text=text, error=str(e)[:200])
                continue
            real = match.func.__name__ if (match is not None and match.func is not None) else None
            dig.update(("mid:%s:%s:%s|" % (stype, text, real)).encode("utf-8"))
            if (chosen["id"] if chosen else None) != real:
                viol("wrong-definition", "lookup-mid-history:%s-instead-of-%s" % (_type_of(so_far, real), chosen["type"] if chosen else "none"),
                     text=text, stype=stype, chosen=real, model=chosen["id"] if chosen else None)
        for typ in ("given", "when", "then", "step"):
            real = [m.func.__name__ for m in reg.steps[typ]]
            want = [d["id"] for d in ref[typ]]
            if real != want:
                viol("wrong-definition", "registry-changed-by-lookup:%s" % typ, real=real, model=want)
                return _finish(out, dig, stats, nops)
    # re-loading the very same module registers nothing new and raises nothing
    if mods and rng.random() < 0.7:
        mi = rng.randrange(len(mods))
        before = len(reg_log)
        sizes = {t: len(reg.steps[t]) for t in reg.steps}
        try:
            load(mi)
        except Exception as e:
            viol("same-definition-not-ignored", "reload-raised:%s" % type(e).__name__, error=str(e)[:200])
        got = dict(reg_log[before:])
        nops += 1
        stats.fired["reload-module"] = stats.fired.get("reload-module", 0) + 1
        for d in mods[mi]:
            if d["id"] in accepted_ids and got.get(d["id"]) != "ok":
                viol("same-definition-not-ignored", "reload:%s" % got.get(d["id"]), pattern=W.render_pattern(d))
                break
        # NOTE: exec creates NEW function objects at the SAME location: that is behave's notion of 'the very same'
        sizes2 = {t: len(reg.steps[t]) for t in reg.steps}
        if sizes2 != sizes:
            viol("same-definition-not-ignored", "reload-grew-registry", before=sizes, after=sizes2)
    # --- lookups
    all_ref = [d for t in ref for d in ref[t]]
    for d in all_ref:
        for variant in ("exact", "exact", "wrong-case", "prefix", "suffix", "changed-literal", "bad-convert"):
            text = W.instantiate(rng, d)
            if variant == "wrong-case":
                text = text.replace(d["tokens"][0][1], d["tokens"][0][1].upper(), 1)
            elif variant == "prefix":
                text = "zz " + text
            elif variant == "suffix":
                text = text + " zz"
            elif variant == "changed-literal":
                lits = [t[1] for t in d["tokens"] if t[0] == "lit"]
                text = text.replace(lits[-1], lits[-1] + "q", 1)
            elif variant == "bad-convert":
                if not any(t[0] == "fld" and t[2] == "Color" for t in d["tokens"]):
                    continue
                bad = rng.choice(["BAD", "WORSE", "ASSERT"])
                for c in W.COLORS:
                    text = text.replace(c, bad)
            types = ["given", "when", "then"] if d["type"] == "step" else [d["type"]]
            stype = rng.choice(types)
            if rng.random() < 0.15:
                stype = rng.choice(["given", "when", "then"])
            nops += 1
            stats.fired["lookup:" + variant] = stats.fired.get("lookup:" + variant, 0) + 1
            if d["matcher"] == "cuke":
                stats.fired["lookup:cucumber-expression"] = stats.fired.get("lookup:cucumber-expression", 0) + 1
            # model lookup: type list first, then generic; earlier first
            chosen = None
            mm = None
            for cand in ref[stype] + ref["step"]:
                mm = model_regex(cand).match(text)
                if mm:
                    chosen = cand
                    break
            step = Step(u"<sim>", 1, u"Given", stype, text)
            try:
                match = reg.find_match(step)
            except Exception as e:
                viol("exception-escaped", "find_match:%s" % type(e).__name__, text=text, error=str(e)[:200])
                continue
            real = match.func.__name__ if (match is not None and match.func is not None) else None
            dig.update(("%s:%s:%s|" % (stype, text, real)).encode("utf-8"))
            if (chosen["id"] if chosen else None) != real:
                if chosen is None:
                    rule = {"wrong-case": "case-insensitive-match"}.get(variant, "partial-match")
                    viol(rule, "%s:%s" % (variant, _matcher_of(all_ref, real)), text=text, stype=stype, chosen=real)
                else:
                    viol("wrong-definition", "lookup:%s:%s-instead-of-%s" % (variant, _type_of(all_ref, real), chosen["type"]),
                         text=text, stype=stype, chosen=real, model=chosen["id"])
                continue
            if chosen is None:
                continue
            # arguments
            conv_fail = False
            exp = []
            gi = 0
            for tok in chosen["tokens"]:
                if tok[0] not in ("fld", "opt"):
                    continue
                gi += 1
                raw = mm.group(gi)
                if tok[0] == "fld" and tok[2] == "Color" and chosen["matcher"] != "re" and \
                        set(["BAD", "WORSE", "ASSERT"]) & set(x.strip() for x in (raw or "").split(",")):
                    conv_fail = True
                val = None if (conv_fail or raw is None) else W.convert_value(tok[2], raw, chosen["matcher"], W.tok_card(tok))
                if W.tok_card(tok):
                    k_ = "lookup:cardinality-field(%s)" % W.tok_card(tok)
                    stats.fired[k_] = stats.fired.get(k_, 0) + 1
                if val is not None and tok[2] == "Color" and chosen["matcher"] != "re" and chosen.get("conv_variant"):
                    sfx = "#%d" % chosen["conv_variant"]       # the converter declared when the definition was made
                    val = [x + sfx for x in val] if isinstance(val, list) else val + sfx
                    stats.fired["lookup:re-registered-converter"] = stats.fired.get("lookup:re-registered-converter", 0) + 1
                exp.append({"name": tok[1] or None, "start": mm.start(gi), "end": mm.end(gi), "original": raw,
                            "value": val})
            is_err = type(match).__name__ == "MatchWithError"
            if conv_fail != is_err:
                viol("converter-fault-status", "match-with-error:%s" % is_err, text=text)
                continue
            if conv_fail:
                continue
            got_args = [{"name": a.name, "start": a.start, "end": a.end, "original": a.original, "value": a.value}
                        for a in match.arguments]
            for a in got_args:
                if a["original"] is not None and text[a["start"]:a["end"]] != a["original"]:
                    viol("span-mismatch", chosen["matcher"], text=text, arg=a)
                    break
            else:
                if repr(got_args) != repr(exp):
                    viol("args-mismatch", "lookup:%s" % chosen["matcher"], text=text, got=got_args, model=exp,
                         pattern=W.render_pattern(chosen))
    return _finish(out, dig, stats, nops, lib)


def _kind(d, mods, other_id):
    return "same-type"


def _matcher_of(defs, did):
    for d in defs:
        if d["id"] == did:
            return d["matcher"]
    return "?"


def _type_of(defs, did):
    for d in defs:
        if d["id"] == did:
            return d["type"]
    return "none"


def _finish(out, dig, stats, nops, lib=None):
    stats.runs += nops
    sig = dig.hexdigest()[:16]
    stats.sigs.add(sig)
    stats.nontrivial_sigs.add(sig)
    if lib is not None and len(stats.samples) < 2:
        stats.samples.append({"definitions": [[d["id"], d["type"], d["matcher"], W.render_pattern(d)] for d in lib["defs"]],
                              "operations": nops})
    seen = set()
    uniq = []
    for (w, v, c) in out:
        fp = (v["rule"], v["key"])
        if fp in seen:
            continue
        seen.add(fp)
        uniq.append((w, v, c))
    return uniq, dig.hexdigest()


def reproduce(world, root, ctx):
    from .driver import Stats
    vs, _ = evaluate(world["seed"], world.get("hashseed", 0), root, Stats())
    return [v for (_w, v, _c) in vs]
