# -*- coding: utf-8 -*-
"""Per-property oracles over (world, history, prediction).

Every oracle returns a list of violation records
    {"prop": "Cxx", "rule": str, "key": str, "detail": {...}}
``key`` is a narrow, stable fingerprint of WHAT failed; (prop, rule, key) is
matched against known_findings.json.
"""
from __future__ import annotations

import os
import re

from . import world as W

ERROR_CLASS = {"error", "hook_error", "cleanup_error", "undefined", "pending"}
PASSED_LIKE = {"passed", "pending_warn", "xfailed", "xpassed"}
UNTESTED = {"untested", "untested_pending", "untested_undefined"}


def V(prop, rule, key, **detail):
    return {"prop": prop, "rule": rule, "key": key, "detail": detail}


def census_index(hist):
    idx = {}

    def walk(n):
        if n.get("id"):
            idx[n["id"]] = n
        for it in n.get("items", []):
            walk(it)
    for f in hist["census"]:
        walk(f)
    return idx


def trace_violations(pred, prop, hist=None):
    out = []
    if hist is not None and (hist.get("escaped") or hist.get("config_error")):
        return out
    for v in pred.violations:
        for (p, rule) in v["rules"]:
            if p == prop:
                out.append(V(prop, rule, v["key"], seq=v["seq"], **_flat(v["detail"])))
    return out


def _flat(d):
    return {k: v for k, v in d.items()}


def escaped_violation(hist, prop_default=None):
    """An exception that escaped main(): attributed by innermost behave frame."""
    esc = hist.get("escaped")
    if not esc:
        return None
    if esc["type"] == "WorldTimeout":
        # the run did not terminate: a liveness violation of whatever property is being checked
        where = "?"
        for fn, name, ln in reversed(esc["frames"]):
            if fn.startswith("behave/") or "/behave/" in fn:
                where = "%s:%s" % (fn.split("/")[-1], name)
                break
        return V(os.environ.get("VERIF_CURRENT_PROP") or prop_default or "HARNESS", "hang",
                 "run-did-not-terminate@%s" % where, msg=esc["msg"], frames=esc["frames"][-6:])
    inner = None
    for fn, name, ln in reversed(esc["frames"]):
        if fn.startswith("behave/") or "/behave/" in fn:
            inner = (fn, name)
            break
    prop = None
    names = [f[1] for f in esc["frames"]]
    if inner and esc["type"] in ("FileNotFoundError", "IsADirectoryError", "NotADirectoryError", "OSError",
                                 "PermissionError") and ("parse_features" in names or "collect_feature_locations" in names):
        inner = ("behave/runner_util.py", "parse_features")
    if inner:
        fn = inner[0]
        if "reporter/junit" in fn:
            prop = "C16"
        elif "reporter/" in fn or fn.endswith("summary.py"):
            prop = "C14"
        elif "formatter/rerun" in fn:
            prop = "C17"
        elif "formatter/" in fn or "json_parser" in fn or "model_describe" in fn:
            prop = "C15"
        elif fn.endswith("parser.py"):
            prop = "C05"
        elif fn.endswith("capture.py") or fn.endswith("log_capture.py"):
            prop = "C18"
        elif fn.endswith("matchers.py") or fn.endswith("step_registry.py"):
            prop = "C11"
        elif fn.endswith("runner_util.py"):
            prop = "C10"
        elif fn.endswith("model.py") and (set(names) & {"build_scenarios", "make_scenario_for", "make_scenario_name",
                                                        "make_row_tags", "make_step_for_row", "render_template"}):
            prop = "C06"        # outline expansion
        elif fn.endswith("runner.py") or fn.endswith("model.py") or fn.endswith("fixture.py"):
            prop = "C12"
        elif fn.endswith("configuration.py") and "build_name_re" in names:
            prop = "C10"        # a valid --name pattern list must yield a usable selection
        elif "tag_expression" in fn:
            prop = "C09"
    rule = {"C16": "reporter-crash", "C14": "reporter-crash", "C15": "formatter-crash",
            "C17": "formatter-crash", "C05": "foreign-exception", "C12": "exception-escaped",
            "C18": "exception-escaped", "C11": "exception-escaped",
            "C10": "exception-escaped"}.get(prop, "exception-escaped")
    key = "%s@%s:%s" % (esc["type"], (inner or ("?", "?"))[0].split("/")[-1], (inner or ("?", "?"))[1])
    return V(prop or "HARNESS", rule, key, type=esc["type"], msg=esc["msg"], frames=esc["frames"][-5:])


# ---------------------------------------------------------------------------
def nothing_can_fail(world):
    """True when the world holds no source of failure at all (independent of the acceptor, which
    stops at its first divergence): every step has a definition, no callback is scripted to raise,
    interrupt or time out, no converter faults, no failing cleanup/fixture, no auto-retry; a
    not-implemented step is allowed only inside a scenario whose effective tags include @wip."""
    cfg = world["cfg"]
    if cfg.get("dry_run") or cfg.get("wip") or world.get("autoretry") or cfg.get("listfile"):
        return False
    rx = [(d, W.def_regex(d)) for d in world["steplib"]["defs"]]
    wip_scen = {}
    for feat, rule, ol, sc in W.walk_scenarios(world):
        wip_scen[sc["id"]] = "wip" in W.effective_tags(feat, rule, ol, sc)
        for _sid, st in W.all_steps_of(feat, rule, sc):
            if "BAD" in st["text"] or "WORSE" in st["text"] or "ASSERT" in st["text"]:
                return False
            ok = False
            for d, r in rx:
                if d["type"] in (st["type"], "step") and r.match(st["text"]):
                    ok = True
                    break
            if not ok:
                return False
    for d in world["steplib"]["defs"]:
        if d.get("async"):
            return False
    for key, ent in world["script"].items():
        k = ent["out"]["kind"]
        if k in ("assert", "exc", "kbi"):
            return False
        if k == "notimpl":
            parts = key.split("|")
            if parts[0] != "step" or not wip_scen.get(parts[1]):
                return False
        if ent.get("async"):
            return False
        for a in ent["acts"]:
            if a["a"] == "cleanup" and (a.get("raises") or a.get("setup_raises")):
                return False
            if a["a"] == "execute_steps":
                return False
            if a["a"] in ("examples_table", "step_table", "skip_element", "skip_container"):
                return False
    return True


def check_C01(world, hist, pred):
    out = trace_violations(pred, "C01", hist)
    if not hist.get("config_error") and not hist.get("escaped") and hist.get("rc") not in (0, None) \
            and nothing_can_fail(world):
        out.append(V("C01", "false-red", "nothing-could-fail", rc=hist.get("rc"), runner_state=hist.get("runner_state")))
        return out
    if pred.notes.get("hook_interrupt") and not hist.get("escaped") and hist.get("rc") == 0:
        out.append(V("C01", "false-green", "interrupted-in-hook", rc=0, hook=pred.notes["hook_interrupt"]))
    if hist.get("config_error") or hist.get("escaped") or pred.dead or pred.verdict is None:
        return out
    if pred.notes.get("retried"):
        return out      # auto-retry is outside C01's quantifier (verdict of a retried pass is unspecified)
    rc = hist["rc"]
    failed = rc != 0
    if pred.verdict and not failed:
        out.append(V("C01", "false-green", "+".join(pred.verdict_reasons),
                     rc=rc, reasons=pred.verdict_reasons))
    elif not pred.verdict and failed:
        rs = hist.get("runner_state")
        out.append(V("C01", "false-red", "no-reason", rc=rc, runner_state=rs))
    return out


def check_C02(world, hist, pred):
    out = trace_violations(pred, "C02", hist)
    esc = hist.get("escaped")
    if esc and esc["type"] not in ("WorldTimeout", "SimKeyboardInterrupt", "KeyboardInterrupt") and \
            any(str(fn).endswith("model.py") and name == "run" for fn, name, _ln in esc["frames"]) and \
            any(name == "find_match" or name == "match" or name == "check_match" for _fn, name, _ln in esc["frames"]):
        # whatever happens while a step is matched and run ends as a step STATUS; an exception that
        # leaves Step.run() (here: out of the matching / conversion code) was not mapped to one
        out.append(V("C02", "status-map", "exception-escaped-step-run:%s" % esc["type"],
                     msg=esc["msg"], frames=esc["frames"][-4:]))
    if pred.dead or hist.get("escaped") or hist.get("config_error"):
        return out
    idx = census_index(hist)
    for feat, rule, ol, sc in W.walk_scenarios(world):
        sid = sc["id"]
        exp = pred.steps.get(sid)
        node = idx.get(sid)
        if node is None or exp is None:
            continue
        steps = W.all_steps_of(feat, rule, sc)
        if len(node["steps"]) != len(steps):
            out.append(V("C02", "background-order", "step-count", scen=sid,
                         model=len(steps), actual=len(node["steps"])))
            continue
        for i, ((stepid, st), cs) in enumerate(zip(steps, node["steps"])):
            if cs["name"] != st["text"]:
                out.append(V("C02", "background-order", "step-text-at-position", scen=sid, idx=i,
                             model=st["text"], actual=cs["name"]))
                break
        for i, (e, cs) in enumerate(zip(exp, node["steps"])):
            if e["allowed"] is None:
                continue
            if cs["status"] not in e["allowed"]:
                why = e["why"]
                rule_id = {"after-nonpass": "rest-not-skipped" if "skipped" in e["allowed"] else "rest-not-undefined",
                           "scenario-skipped-by-step": "skip-scenario-rest",
                           "skip-scenario": "skip-scenario-rest",
                           "notimpl": "wip-pending" if "pending_warn" in e["allowed"] else "status-map",
                           "dry-run": "dry-run-called",
                           "deselected": None, "before-hook-failed": None,
                           "skipped-by-hook": None, "before_step-failed": None,
                           "after_step-failed": None}.get(why, "status-map")
                if rule_id is None:
                    continue
                retried = pred.scen.get(sid, {}).get("attempts", 1) > 1
                if retried:
                    rule_id = "stale-status-after-rerun"
                out.append(V("C02", rule_id, "%s:%s->%s" % (why, "/".join(sorted(e["allowed"])), cs["status"]),
                             scen=sid, idx=i, text=cs["name"]))
    return out


# ---------------------------------------------------------------------------
def allowed_from_children(kinds, node_kind):
    """Allowed statuses of a container from the ACTUAL statuses of its children."""
    st = list(kinds)
    if not st:
        return None
    has_err = any(s in ERROR_CLASS for s in st)
    has_fail = any(s == "failed" for s in st)
    if has_err and has_fail:
        return {"error", "failed"}
    if has_err:
        return {"error"}
    if has_fail:
        return {"failed"}
    if all(s == "skipped" for s in st):
        return {"skipped"}
    nonskipped = [s for s in st if s != "skipped"]
    if all(s in PASSED_LIKE for s in nonskipped):
        return {"passed"}
    if all(s in UNTESTED for s in nonskipped):
        return {"untested"}
    # mixture of passed-like and untested, no failure: run was cut short
    return {"untested", "failed", "error", "skipped"}      # anything but passed


def check_C03(world, hist, pred):
    out = []
    if hist.get("escaped") or hist.get("config_error"):
        return out
    cleanup_failed = set()
    hook_failed_model = set()
    for sid, rec in pred.scen.items():
        if rec.get("cleanup_failed"):
            cleanup_failed.add(sid)
    for cid, rec in pred.cont.items():
        if rec.get("cleanup_failed"):
            cleanup_failed.add(cid)
    dead = pred.dead
    interrupted_only = bool(pred.notes.get("hook_interrupt")) and not pred.notes.get("container_skipped_midrun") and \
        not any(e["kind"] == "cleanup" and e.get("raised") for e in hist["events"]) and \
        not any(e["kind"] == "hook" and e.get("raised") and e["raised"] != "KeyboardInterrupt" for e in hist["events"])

    def visit(node):
        """Returns True when the element (transitively) holds a childless element:
        those are out of scope of C03 and taint every enclosing roll-up."""
        kind = node["kind"]
        tainted = False
        if kind == "scenario":
            children = [s["status"] for s in node["steps"]]
        else:
            for it in node["items"]:
                if visit(it):
                    tainted = True
            children = [it["status"] for it in node["items"]]
        if not children:
            return True
        if tainted:
            return True
        check(node, kind, children)
        return False

    def check(node, kind, children):
        if node.get("hook_failed") or node["id"] in cleanup_failed or \
                (node["status"] == "hook_error" and kind not in ("outline", "scenario")):
            rec = pred.scen.get(node["id"]) if kind == "scenario" else None
            if rec and rec.get("attempts", 1) > 1 and not dead and not rec.get("hook_failed") \
                    and not rec.get("cleanup_failed") and not rec.get("step_hook_failed"):
                # re-run: statuses depend only on the LATEST attempt, in which no hook failed
                out.append(V("C03", "status-after-retry", "stale-hook-failure:%s" % node["status"],
                             id=node["id"], attempts=rec.get("attempts"), hook_failed_flag=node.get("hook_failed")))
            return
        if dead and kind != "outline":
            # the model lost track of cleanups in this run: only the rules that do
            # not depend on cleanup knowledge are applied
            if node["status"] == "passed" and not all(
                    s in PASSED_LIKE or s == "skipped" for s in children):
                pass
            elif interrupted_only and kind in ("feature", "rule"):
                pass        # (an interrupt inside a hook, no cleanup raised: the table applies to containers)
            else:
                return
        if dead and kind == "outline" and node["status"] == "skipped" and \
                any(s in ("failed", "error", "hook_error", "undefined", "pending") for s in children):
            # (holds without any trace knowledge: something that failed inside is never 'skipped')
            out.append(V("C03", "outline-status", "outline:failed-child=>skipped", id=node["id"], children=children))
            return
        allowed = allowed_from_children(children, kind)
        if world["cfg"].get("dry_run"):
            # nothing is executed in a dry run: 'untested' is the other documented answer
            allowed = set(allowed) | {"untested"}
            allowed.discard("passed")
        if node["status"] not in allowed:
            multiset = "+".join(sorted(set(children)))
            rule = {"scenario": "scenario-status", "outline": "outline-status"}.get(kind, "container-status")
            if kind == "scenario" and node["status"] == "skipped" and allowed == {"passed"} and \
                    pred.scen.get(node["id"], {}).get("skipped_by") == "step":
                multiset = "skipped-by-own-step-after-passed-steps"
            if node["status"] == "passed" and not any(s in PASSED_LIKE for s in children):
                rule = "never-passed-when-nothing-ran"
            out.append(V("C03", rule, "%s:%s=>%s" % (kind, multiset, node["status"]),
                         id=node["id"], children=children, allowed=sorted(allowed)))
    for f in hist["census"]:
        visit(f)
    return out


def check_status_table():
    """Start-up invariant: the status classification is coherent."""
    from behave.model_core import Status
    out = []
    for s in Status:
        if s.name in ("unknown", "executing"):
            continue
        classes = [s.is_passed(), s.is_failure(), s.is_error(), s == Status.skipped, s.is_untested()]
        if sum(1 for c in classes if c) != 1:
            out.append(V("C03", "classification-table", s.name, classes=classes))
        if s.has_failed() != (s.is_failure() or s.is_error()):
            out.append(V("C03", "classification-table", s.name + ":has_failed"))
        mine = ("error" if s.name in ERROR_CLASS else "failure" if s.name == "failed" else
                "passed" if s.name in PASSED_LIKE else "skipped" if s.name == "skipped" else
                "untested" if s.name in UNTESTED else None)
        theirs = ("error" if s.is_error() else "failure" if s.is_failure() else
                  "passed" if s.is_passed() else "skipped" if s == Status.skipped else
                  "untested" if s.is_untested() else None)
        if mine != theirs:
            out.append(V("C03", "classification-table", s.name + ":class", model=mine, actual=theirs))
    return out


# ---------------------------------------------------------------------------
def _static_selection_checks(world, hist, prop, reason_kinds):
    """Checks that need no trace knowledge (used even when the acceptor lost track):
    a statically de-selected scenario must not execute; a statically selected one must not
    end up skip-marked unless something in the run skipped or cut it."""
    out = []
    idx = census_index(hist)
    from .model import Selection
    sel = Selection(world, hist)
    cfg = world["cfg"]
    executed = set()
    skippers = False
    cut = False
    for e in hist["events"]:
        if e["depth"] == 0 and e["kind"] in ("hook", "step") and e.get("scen"):
            executed.add(e["scen"])
        for d in e["did"]:
            if d[0] in ("skip_element", "skip_scenario", "skip_container"):
                skippers = True
        if e.get("raised"):
            cut = True
    in_force = {"tags": sel.tagexpr is not None, "name": bool(cfg.get("names")),
                "location": bool(cfg.get("paths"))}
    mine = [k for k in reason_kinds if in_force[k]]
    for feat, rule, ol, sc in W.walk_scenarios(world):
        sid = sc["id"]
        node = idx.get(sid)
        if node is None:
            continue
        why = sel.why_not(sid)
        if why is not None and why in reason_kinds:
            if sid in executed:
                out.append(V(prop, "executed-not-selected", "by-%s" % why, scen=sid))
                break
        if why is None and mine and not skippers and not cfg.get("dry_run"):
            # selected by every criterion: it must not be skip-marked by the selection machinery
            if node["status"] == "skipped" and node["steps"] and \
                    (node["should_skip"] or sid not in executed):
                # (skip-marked itself, or skipped wholesale with its feature / rule)
                other = [k for k in ("tags", "name", "location") if in_force[k] and k not in reason_kinds]
                out.append(V(prop, "selected-not-executed", "skip-marked:%s" % "+".join(mine), scen=sid,
                             also_in_force=other))
                break
    return out


def _selection_checks(world, hist, pred, prop, reason_kinds):
    out = trace_violations(pred, prop, hist)
    if hist.get("escaped") or hist.get("config_error"):
        return out
    out.extend(_static_selection_checks(world, hist, prop, reason_kinds))
    if pred.dead:
        return out
    idx = census_index(hist)
    from .model import Selection
    sel = Selection(world, hist)
    executed = set()
    for e in hist["events"]:
        if e["depth"] == 0 and e["kind"] in ("hook", "step") and e.get("scen"):
            executed.add(e["scen"])
    for feat, rule, ol, sc in W.walk_scenarios(world):
        sid = sc["id"]
        rec = pred.scen.get(sid)
        node = idx.get(sid)
        if rec is None or node is None:
            continue
        why = sel.why_not(sid)
        if why is not None and why in reason_kinds and rec.get("reached"):
            if node["status"] != "skipped" or any(s["status"] != "skipped" for s in node["steps"]):
                out.append(V(prop, "deselected-not-skipped", "by-%s" % why, scen=sid,
                             status=node["status"], steps=[s["status"] for s in node["steps"]]))
        if why is None and rec.get("reached") and rec.get("executed") and not world["cfg"].get("dry_run"):
            has_hooks = bool(set(world["hooks"]) & {"before_scenario", "after_scenario"}) or \
                (bool(set(world["hooks"]) & {"before_tag", "after_tag"}) and sc["tags"])
            steps = W.all_steps_of(feat, rule, sc)
            if sid not in executed and (has_hooks):
                out.append(V(prop, "selected-not-executed", "no-events", scen=sid))
    # containers
    if prop == "C09":
        def cont(c, feat, rule_):
            ids = []
            for f, r, o, s in W.walk_scenarios({"features": [feat]}):
                if c is feat or (r is not None and r["id"] == c["id"]):
                    ids.append(s["id"])
            node = idx.get(c["id"])
            rec = pred.cont.get(c["id"])
            if node is None or rec is None or not ids:
                return
            if node.get("hook_failed") or rec.get("cleanup_failed") or rec.get("hook_failed"):
                return
            pre = c["id"] + "."
            for e in hist["events"]:
                if e.get("raised") and e["kind"] in ("hook", "cleanup") and \
                        str(e.get("eid") or "").startswith(pre):
                    return
            for k2, r2 in list(pred.cont.items()) + list(pred.scen.items()):
                if k2.startswith(pre) and r2.get("cleanup_failed"):
                    return
            if not any(sel.selected(s) for s in ids):
                if node["status"] != "skipped":
                    out.append(V("C09", "container-not-skipped", c["id"][0] + ":" + node["status"],
                                 id=c["id"], status=node["status"]))
            else:
                ran = [s for s in ids if sel.selected(s) and idx.get(s) is not None
                       and idx[s]["status"] in ("passed", "failed")]
                if ran and node["status"] == "skipped":
                    out.append(V("C09", "container-skipped-wrongly", c["id"][0], id=c["id"]))
        for feat in world["features"]:
            if feat["id"] not in pred.cont:
                continue
            cont(feat, feat, None)
            for it in feat["items"]:
                if it["kind"] == "rule":
                    cont(it, feat, it)
    return out


def check_C09(world, hist, pred):
    out = _selection_checks(world, hist, pred, "C09", ("tags",))
    ce = hist.get("config_error") or ""
    if world["cfg"].get("tagexpr") and ce.startswith("TagExpressionError") and not hist.get("system_exit"):
        # every generated expression is valid in the dialect/protocol it is rendered for:
        # rejecting it selects nothing instead of the matching scenarios
        out.append(V("C09", "valid-expression-rejected", "protocol:%s" % (world["cfg"].get("tags_protocol") or "default"),
                     tag_args=world["cfg"].get("tag_args"), error=ce[:200]))
    return out


def check_C10(world, hist, pred):
    out = _selection_checks(world, hist, pred, "C10", ("location", "name"))
    if hist.get("escaped") or hist.get("config_error"):
        return out
    # the feature files addressed on the command line / in the list file are the ones loaded, in order
    loaded = [f["id"] for f in hist["census"]]
    want = list(pred.features_loaded)
    if loaded != want:
        how = "listfile" if world["cfg"].get("listfile") else ("locations" if world["cfg"].get("paths") else "directory")
        out.append(V("C10", "listfile" if how == "listfile" else "line-selects-wrong-set",
                     "features-loaded-differ:%s" % how, loaded=loaded, model=want,
                     tail="".join(c[2] for c in hist["tty_out"])[-200:]))
    return out


# ---------------------------------------------------------------------------
def check_C12(world, hist, pred):
    out = trace_violations(pred, "C12", hist)
    esc = escaped_violation(hist)
    if esc is not None and esc["prop"] == "C12":
        out.append(esc)
    if hist.get("escaped") or hist.get("config_error"):
        return out
    idx = census_index(hist)
    raised_hooks = [e for e in hist["events"]
                    if e["kind"] == "hook" and e.get("raised") and e["depth"] == 0]
    if raised_hooks and hist["rc"] == 0:
        out.append(V("C12", "verdict-not-failed", raised_hooks[0]["name"], hook=raised_hooks[0]["name"]))
    concerned = {}
    for e in raised_hooks:
        name = e["name"]
        if name.endswith("_all"):
            continue
        concerned.setdefault(e["eid"], []).append(name)
    for eid, names in sorted(concerned.items()):
        if "#" in eid:
            sid, i = eid.split("#")
            node = idx.get(sid)
            if node is None or not i.isdigit() or int(i) >= len(node["steps"]):
                continue
            st = node["steps"][int(i)]
            if st["status"] != "hook_error":
                # a scenario re-run by auto-retry resets its steps
                if pred.scen.get(sid, {}).get("attempts", 1) > 1:
                    continue
                out.append(V("C12", "wrong-element-marked", "step:%s:%s" % (names[0], st["status"]),
                             eid=eid, status=st["status"]))
            continue
        node = idx.get(eid)
        if node is None:
            continue
        if pred.scen.get(eid, {}).get("attempts", 1) > 1:
            continue
        if node["status"] != "hook_error" and not node.get("hook_failed"):
            kind = node["kind"]
            out.append(V("C12", "wrong-element-marked", "%s:%s:not-marked:%s" % (kind, names[0], node["status"]),
                         eid=eid, status=node["status"], hooks=names))
    # nobody else is marked
    for nid, node in sorted(idx.items()):
        if node["status"] == "hook_error" or node.get("hook_failed"):
            if nid in concerned:
                continue
            if node["kind"] == "scenario" and any(k.startswith(nid + "#") for k in concerned):
                continue    # step hook errors roll up (C03), not a marking of the scenario itself
            if node.get("hook_failed") or node["status"] == "hook_error":
                if node["kind"] == "scenario" and node["status"] != "hook_error" and not node.get("hook_failed"):
                    continue
                out.append(V("C12", "wrong-element-marked", "%s:marked-without-own-hook-failure" % node["kind"],
                             eid=nid, status=node["status"], raised=[(e["name"], e["eid"]) for e in raised_hooks][:5]))
    return out


def differential_C12(world, hist0, pred0, histk, predk, kev):
    """Elements outside the failing element's ancestry keep their fault-free result."""
    out = []
    if histk.get("escaped") or hist0.get("escaped"):
        return out
    i0 = census_index(hist0)
    ik = census_index(histk)
    eid = kev["eid"]
    name = kev["name"]
    stop = bool(world["cfg"].get("stop") or world["cfg"].get("wip"))
    if name.endswith("_all"):
        return out
    base = eid.split("#")[0]

    def related(nid):
        return nid == base or nid.startswith(base + ".") or base.startswith(nid + ".")
    for nid, n0 in sorted(i0.items()):
        nk = ik.get(nid)
        if nk is None or related(nid):
            continue
        if nk["kind"] == "scenario" and not nk["steps"]:
            continue        # childless elements are out of scope (their status is vacuous)
        if n0["status"] != nk["status"]:
            if stop and nk["status"] in ("untested", "skipped"):
                continue
            # with --stop an enclosing container of an un-run remainder changes too
            if stop and nk["kind"] != "scenario":
                continue
            out.append(V("C12", "bystander-changed", "%s:%s->%s" % (nk["kind"], n0["status"], nk["status"]),
                         eid=nid, hook=name, at=eid))
            break
    return out


# ---------------------------------------------------------------------------
def check_C13(world, hist, pred):
    out = trace_violations(pred, "C13", hist)
    if hist.get("escaped") or hist.get("config_error"):
        return out
    idx = census_index(hist)
    # cleanup called exactly once
    calls = {}
    for e in hist["events"]:
        if e["kind"] == "cleanup":
            calls[e["cid"]] = calls.get(e["cid"], 0) + 1
    for cid, n in sorted(calls.items()):
        if n > 1:
            out.append(V("C13", "cleanup-twice", hist["cleanups"][cid]["kind"], cid=cid, n=n))
    if not pred.dead:
        for cid, info in sorted(hist["cleanups"].items()):
            if info.get("registered") and not info.get("no_cleanup") and not info.get("setup_raises") \
                    and not info.get("refused") and cid not in calls:
                out.append(V("C13", "cleanup-missing", info["kind"], cid=cid, layer=info.get("layer")))
        # raising cleanup => owning element fails and the run fails
        any_raise = any(e["kind"] == "cleanup" and e.get("raised") for e in hist["events"])
        if any_raise and hist["rc"] == 0:
            out.append(V("C13", "cleanup-error-not-failing", "rc"))
        for sid, rec in sorted(pred.scen.items()):
            if rec.get("cleanup_failed") and sid in idx:
                st = idx[sid]["status"]
                if st not in ERROR_CLASS and st != "failed":
                    out.append(V("C13", "cleanup-error-not-failing", "scenario:" + st, id=sid))
        for cid_, rec in sorted(pred.cont.items()):
            if rec.get("cleanup_failed") and cid_ in idx:
                st = idx[cid_]["status"]
                if st not in ERROR_CLASS and st != "failed":
                    out.append(V("C13", "cleanup-error-not-failing", idx[cid_]["kind"] + ":" + st, id=cid_))
    return out


def check_C11_runs(world, hist, pred):
    """Dispatch through the real Step.run: the definition chosen and the arguments received."""
    out = []
    if hist.get("escaped") or hist.get("config_error") or pred.dead:
        return out
    for sid, exp in sorted(pred.steps.items()):
        for i, e in enumerate(exp):
            ev = e.get("ev")
            if ev is None or e.get("def") is None:
                continue
            if ev["name"] != e["def"]:
                out.append(V("C11", "wrong-definition", "run:%s-instead-of-%s" % (_deftype(world, ev["name"]), _deftype(world, e["def"])),
                             scen=sid, idx=i, text=ev.get("text"), chosen=ev["name"], model=e["def"]))
                continue
            ea = e.get("exp_args")
            if ea is None:
                continue
            got = [ev.get("args"), ev.get("kwargs")]
            if "  " in (ev.get("text") or ""):
                continue        # two adjacent blanks in the text (an empty or blank-edged cell was substituted
                                # next to a literal blank): the text has several readings - which neighbouring
                                # field owns the extra blank (or the item in front of a list) is open
            if _norm(got) != _norm(ea):
                out.append(V("C11", "args-mismatch", "run:%s" % _matcher(world, e["def"]), scen=sid, idx=i,
                             text=ev.get("text"), received=got, model=ea))
    # a converter fault makes the step an error (never calls the function)
    return out


def _strip_strings(x):
    if isinstance(x, str):
        return x.strip()
    if isinstance(x, list):
        return [_strip_strings(v) for v in x]
    if isinstance(x, dict):
        return {k: _strip_strings(v) for k, v in x.items()}
    return x


def _norm(x):
    import json as _j
    return _j.dumps(x, sort_keys=True, default=repr)


def _deftype(world, did):
    for d in world["steplib"]["defs"]:
        if d["id"] == did:
            return d["type"]
    return "?"


def _matcher(world, did):
    for d in world["steplib"]["defs"]:
        if d["id"] == did:
            return d["matcher"]
    return "?"


CHECKS = {"C11": check_C11_runs, "C01": check_C01, "C02": check_C02, "C03": check_C03, "C09": check_C09,
          "C10": check_C10, "C12": check_C12, "C13": check_C13}


# ---------------------------------------------------------------------------
# C06: scenario outline expansion
# ---------------------------------------------------------------------------
class _D(object):
    def __init__(self, name, index, id_=None):
        self.name = name
        self.index = index
        self.id = id_ if id_ is not None else name


def check_C06(world, hist, pred):
    out = []
    if hist.get("escaped") or hist.get("config_error"):
        return out
    idx = census_index(hist)
    # the expansion is rebuilt when (and only when) an examples table was changed: the row scenarios
    # that were executed are the ones the outline still holds afterwards
    if not world["cfg"].get("dry_run"):
        ran = {}
        changed = set()         # outlines whose tables a hook changed (rows added there have no line
        for e in hist["events"]:        # of their own, so census ids alias: left to the rebuild checks below)
            if e["kind"] == "step" and e["depth"] == 0 and e.get("scen") and not e.get("raised"):
                ran.setdefault(e["scen"], e)
            for d in e["did"]:
                if d[0] in ("table_add_row", "table_add_column"):
                    changed.add(d[1])
        for sid, e in sorted(ran.items()):
            node = idx.get(sid)
            if node is None or ".E" not in sid or not node["steps"] or sid.rsplit(".E", 1)[0] in changed:
                continue
            if node["status"] == "untested" and all(s["status"] == "untested" for s in node["steps"]):
                out.append(V("C06", "not-rebuilt-after-table-change", "rows-rebuilt-without-change",
                             row=sid, executed_step=e.get("idx")))
                break
    schema = world["cfg"].get("outline_schema") or u"{name} -- @{row.id} {examples.name}"
    # table-API mutations performed by hooks (the expansion must be rebuilt accordingly)
    muts = {}
    mutated_steps = set()
    for e in hist["events"]:
        for d in e["did"]:
            if d[0] == "table_add_row":
                muts.setdefault(d[1], []).append(("row", d[2], d[3]))
            elif d[0] == "table_add_column":
                muts.setdefault(d[1], []).append(("col", d[2], d[3], d[4]))
            elif d[0] == "step_table_mutated" and e["kind"] == "step":
                mutated_steps.add((e.get("scen"), e.get("idx")))
    feats = {f["id"]: f for f in world["features"]}
    for fnode in hist["census"]:
        feat = feats.get(fnode["id"])
        if feat is None:
            continue
        outlines = [(it, None) for it in feat["items"] if it["kind"] == "outline"]
        for it in feat["items"]:
            if it["kind"] == "rule":
                outlines += [(x, it) for x in it["items"] if x["kind"] == "outline"]
        for ol, rule in outlines:
            node = idx.get(ol["id"])
            if node is None:
                continue
            ol2 = ol
            if ol["id"] in muts:
                import copy
                ol2 = copy.deepcopy(ol)
                for m in muts[ol["id"]]:
                    ex = ol2["examples"][m[1]]
                    if m[0] == "row":
                        ex["rows"].append(list(m[2]))
                    else:
                        ex["headings"].append(m[2])
                        for r in ex["rows"]:
                            r.append(m[3])
            rows = W.outline_rows(ol2)
            key_sfx = ":after-table-api-change" if ol["id"] in muts else ""
            if len(node["items"]) != len(rows):
                rule_id = "not-rebuilt-after-table-change" if ol["id"] in muts else "row-count-order"
                out.append(V("C06", rule_id, "count" + key_sfx, outline=ol["id"],
                             model=len(rows), actual=len(node["items"])))
                continue
            # template must be untouched
            for ti, (ts, ws) in enumerate(zip(node["template_steps"], ol["steps"])):
                wt = ws.get("table")
                if ts["name"] != ws["text"] or (ts["text"] or None) != (ws.get("doc") or None) or \
                        (wt is not None and ts["table"] is not None and
                         (ts["table"]["rows"] != wt["rows"] or ts["table"]["headings"] != wt["headings"])):
                    out.append(V("C06", "template-mutated", "step-%s" % ("table" if ts["name"] == ws["text"] and (ts["text"] or None) == (ws.get("doc") or None) else "text"),
                                 outline=ol["id"], step=ti, census=ts, world=ws))
                    break
            n_bg = None
            for rn, row in zip(node["items"], rows):
                ex = ol2["examples"][row["e"]]
                want_name = schema.format(name=row["name_core"],
                                          examples=_D(row["ex_name"], row["e"] + 1),
                                          row=_D("%d.%d" % (row["e"] + 1, row["r"] + 1), row["r"] + 1,
                                                 "%d.%d" % (row["e"] + 1, row["r"] + 1)))
                if rn["name"] != want_name:
                    out.append(V("C06", "row-name", "name" + key_sfx, outline=ol["id"], row=row["id"],
                                 model=want_name, actual=rn["name"], schema=schema))
                    break
                if rn["tags"] != row["tags"]:
                    out.append(V("C06", "row-tags", "tags" + key_sfx, outline=ol["id"], row=row["id"],
                                 model=row["tags"], actual=rn["tags"]))
                    break
                want_line = world["lines"].get(row["id"])
                if want_line is not None and rn["line"] != want_line:
                    out.append(V("C06", "row-line", "line", outline=ol["id"], row=row["id"],
                                 model=want_line, actual=rn["line"]))
                    break
                own = rn["steps"][len(rn["steps"]) - rn["n_own_steps"]:] if rn["n_own_steps"] else []
                nbg = len(rn["steps"]) - rn["n_own_steps"]
                if len(own) != len(row["steps"]):
                    out.append(V("C06", "step-text", "step-count", row=row["id"], model=len(row["steps"]), actual=len(own)))
                    break
                bad = False
                for si, (cs, ws) in enumerate(zip(own, row["steps"])):
                    if cs["name"] != ws["text"]:
                        out.append(V("C06", "step-text", "name" + key_sfx, row=row["id"], step=si,
                                     model=ws["text"], actual=cs["name"]))
                        bad = True
                        break
                    if (cs["text"] or None) != (ws.get("doc") or None):
                        out.append(V("C06", "step-docstring", "doc" + key_sfx, row=row["id"], step=si,
                                     model=ws.get("doc"), actual=cs["text"]))
                        bad = True
                        break
                    wt = ws.get("table")
                    if wt is not None and (rn["id"], nbg + si) not in mutated_steps:
                        ct = cs["table"]
                        if ct is None or ct["headings"] != wt["headings"] or ct["rows"] != wt["rows"] or \
                                ct.get("rows_by_name_disagree"):
                            # (rows_by_name_disagree: a row answers row["heading"] with other headings
                            #  than the table shows - the substituted heading did not reach the rows)
                            leak = any(c == "MUT" for r in (ct or {}).get("rows", []) for c in r) or \
                                "MUT" in ((ct or {}).get("headings") or [])
                            out.append(V("C06", "row-leak" if leak else "step-table", "table" + key_sfx,
                                         row=row["id"], step=si, model=wt, actual=ct))
                            bad = True
                            break
                if bad:
                    break
    return out
