# -*- coding: utf-8 -*-
"""Oracles over artefacts: summary text (C14), formatter event streams and
json/plain/progress reports (C15), JUnit XML (C16), rerun file (C17),
TTY chunks / captured output (C18).  Independent re-readers only."""
from __future__ import annotations

import json
import re
import xml.etree.ElementTree as ET

from . import world as W
from .oracles import V, census_index, ERROR_CLASS

STATUS_NAMES = ["passed", "failed", "error", "hook_error", "cleanup_error", "skipped", "pending",
                "pending_warn", "undefined", "untested", "untested_pending", "untested_undefined"]


# ---------------------------------------------------------------------------
# census helpers
# ---------------------------------------------------------------------------
def census_counts(hist):
    c = {"feature": {}, "rule": {}, "scenario": {}, "step": {}}

    def inc(kind, st):
        c[kind][st] = c[kind].get(st, 0) + 1

    def visit(n):
        k = n["kind"]
        if k in ("feature", "rule"):
            inc(k, n["status"])
        elif k == "scenario":
            inc("scenario", n["status"])
            for s in n["steps"]:
                inc("step", s["status"])
        for it in n.get("items", []):
            visit(it)
    for f in hist["census"]:
        visit(f)
    return c


def census_scenarios(hist):
    out = []

    def visit(n, fname):
        if n["kind"] == "scenario":
            out.append((fname, n))
        for it in n.get("items", []):
            visit(it, fname)
    for f in hist["census"]:
        visit(f, f["filename"])
    return out


# ---------------------------------------------------------------------------
# C14
# ---------------------------------------------------------------------------
def parse_summary_text(text):
    """Returns {kind: {status: count, '_total': n or None}} from any of the 5 formats."""
    res = {}
    for line in text.split("\n"):
        # (user output without a trailing newline may precede the summary on the same line)
        m = re.search(r"(?<![0-9])(\d+)\s+(feature|rule|scenario|step)s?\b(.*)$", line)
        if not m:
            continue
        kind = m.group(2)
        rest = m.group(3)
        n0 = int(m.group(1))
        counts = {}
        total = None
        if "(" in rest and ":" in rest:
            total = n0
            for nm, val in re.findall(r"([a-z_]+): (\d+)", rest):
                counts[nm] = int(val)
        else:
            mm = re.match(r"^\s+passed\b(.*)$", rest)
            if mm:
                counts["passed"] = n0
                rest = mm.group(1)
            else:
                total = n0
            for val, nm in re.findall(r"(\d+) ([a-z_]+)", rest):
                counts[nm] = int(val)
        res[kind] = {"counts": counts, "total": total}
    return res


def summary_block(hist):
    """The text written by SummaryReporter.end(): last lines of the real stdout."""
    out = "".join(c[2] for c in hist["tty_out"])
    return out


def post_C14(runner, config):
    from behave.summary import SummaryCollector, SummaryCounts
    from behave.reporter import summary as RS
    data = {}
    col = SummaryCollector(SummaryCounts())
    col.visit_many(runner.features)
    sc = col.summary_counts
    data["collector"] = {k: {st.name: n for st, n in getattr(sc, k).items() if n}
                         for k in ("features", "rules", "scenarios", "steps")}
    data["collector_failed"] = [str(s.location) for s in col.failed_scenarios]
    data["collector_errored"] = [str(s.location) for s in col.errored_scenarios]
    rep = None
    for r in config.reporters:
        if isinstance(r, RS.SummaryReporterV1):
            rep = r
    if rep is not None:
        fm = {}
        for name, fn in sorted(RS.OUTPUT_FORMAT_MAP.items()):
            txt = ""
            for kind, summ in (("feature", rep.feature_summary), ("rule", rep.rule_summary),
                               ("scenario", rep.scenario_summary), ("step", rep.step_summary)):
                txt += fn(kind, dict(summ))
            fm[name] = txt
        data["formats"] = fm
        data["reporter_format"] = rep.output_format
    return data


def _cmp_counts(out, label, kind, parsed_counts, total, truth, key_prefix):
    n_truth = sum(truth.values())
    for st in set(list(parsed_counts) + list(truth)):
        if st in ("all",):
            continue
        a = parsed_counts.get(st, 0)
        b = truth.get(st, 0)
        if a != b:
            out.append(V("C14", "count-mismatch", "%s:%s:%s" % (key_prefix, kind, st),
                         source=label, printed=a, census=b))
            return
    if total is not None and total != n_truth:
        out.append(V("C14", "sum-mismatch", "%s:%s" % (key_prefix, kind), source=label,
                     printed_total=total, census=n_truth))
    elif total is None and sum(parsed_counts.values()) != n_truth:
        out.append(V("C14", "sum-mismatch", "%s:%s" % (key_prefix, kind), source=label,
                     printed_sum=sum(parsed_counts.values()), census=n_truth))


def check_C14(world, hist, pred):
    out = []
    if hist.get("config_error"):
        return out
    if hist.get("escaped"):
        return out
    cfg = world["cfg"]
    truth = census_counts(hist)
    plural = {"feature": "features", "rule": "rules", "scenario": "scenarios", "step": "steps"}
    if cfg.get("summary"):
        text = summary_block(hist)
        parsed = parse_summary_text(text)
        for kind in ("feature", "scenario", "step"):
            if kind not in parsed:
                out.append(V("C14", "count-mismatch", "printed:missing-line:%s" % kind))
                return out
        for kind in ("feature", "rule", "scenario", "step"):
            if kind == "rule" and kind not in parsed:
                if sum(truth["rule"].values()):
                    out.append(V("C14", "count-mismatch", "printed:missing-line:rule"))
                continue
            _cmp_counts(out, "printed", kind, parsed[kind]["counts"], parsed[kind]["total"],
                        truth[kind], "printed")
        # listed failing / errored scenarios
        failing = re.search(r"\nFailing scenarios:\n((?:  .*\n)+)", "\n" + text)
        errored = re.search(r"\nErrored scenarios:\n((?:  .*\n)+)", "\n" + text)

        def locs(m):
            if not m:
                return []
            return [ln.strip().split("  ")[0] for ln in m.group(1).split("\n") if ln.strip()]
        want_f = ["%s:%d" % (fn, n["line"]) for fn, n in census_scenarios(hist) if n["status"] == "failed"]
        want_e = ["%s:%d" % (fn, n["line"]) for fn, n in census_scenarios(hist) if n["status"] in ERROR_CLASS]
        if sorted(locs(failing)) != sorted(want_f):
            out.append(V("C14", "listed-scenarios", "failing", printed=locs(failing), census=want_f))
        if sorted(locs(errored)) != sorted(want_e):
            kinds = sorted(set(n["status"] for fn, n in census_scenarios(hist) if n["status"] in ERROR_CLASS))
            out.append(V("C14", "listed-scenarios", "errored:" + "+".join(kinds), printed=locs(errored), census=want_e))
    post = hist.get("post") or {}
    if hist.get("post_error"):
        out.append(V("C14", "reporter-crash", "post:" + hist["post_error"].split(":")[0], error=hist["post_error"]))
    if "collector" in post:
        for kind in ("feature", "rule", "scenario", "step"):
            _cmp_counts(out, "collector", kind, post["collector"][plural[kind]], None, truth[kind], "collector")
        want_f = ["%s:%d" % (fn, n["line"]) for fn, n in census_scenarios(hist) if n["status"] == "failed"]
        want_e = ["%s:%d" % (fn, n["line"]) for fn, n in census_scenarios(hist) if n["status"] in ERROR_CLASS]
        if sorted(post["collector_failed"]) != sorted(want_f):
            out.append(V("C14", "collector-vs-census", "failed-list", got=post["collector_failed"], census=want_f))
        if sorted(post["collector_errored"]) != sorted(want_e):
            kinds = sorted(set(n["status"] for fn, n in census_scenarios(hist) if n["status"] in ERROR_CLASS))
            out.append(V("C14", "collector-vs-census", "errored-list:" + "+".join(kinds),
                         got=post["collector_errored"], census=want_e))
    if "formats" in post:
        base = None
        for name, txt in sorted(post["formats"].items()):
            parsed = parse_summary_text(txt)
            norm = {}
            for kind, d in parsed.items():
                cnt = {k: v for k, v in d["counts"].items() if v}
                norm[kind] = cnt
                n_truth = sum(truth[kind].values())
                tot = d["total"] if d["total"] is not None else sum(d["counts"].values())
                if tot != n_truth or cnt != {k: v for k, v in truth[kind].items() if v}:
                    out.append(V("C14", "formats-disagree", "%s:%s" % (name, kind), text=txt,
                                 census=truth[kind]))
                    break
    return out


# ---------------------------------------------------------------------------
# C15
# ---------------------------------------------------------------------------
def check_rec_grammar(log):
    """Returns None or (position, reason)."""
    i = 0
    n = len(log)

    def cb(k):
        return log[k]["cb"] if k < n else None
    closes = [k for k in range(n) if log[k]["cb"] == "close"]
    if len(closes) != 1 or closes[0] != n - 1:
        return (closes[0] if closes else n, "close-count:%d" % len(closes))
    while cb(i) != "close":
        if cb(i) != "uri":
            return (i, "expected-uri-got-%s" % cb(i))
        i += 1
        if cb(i) == "uri" or cb(i) == "close":
            continue        # feature not shown (skipped, show_skipped off)
        if cb(i) != "feature":
            return (i, "expected-feature-got-%s" % cb(i))
        i += 1
        if cb(i) == "background":
            i += 1
        while cb(i) in ("rule", "scenario"):
            if cb(i) == "rule":
                i += 1
                if cb(i) == "background":
                    i += 1
                continue
            i += 1
            steps = []
            while cb(i) == "step":
                steps.append(log[i])
                i += 1
            pos = 0
            while cb(i) in ("match", "result"):
                if cb(i) != "match":
                    return (i, "result-without-match")
                i += 1
                if cb(i) != "result":
                    return (i, "match-without-result")
                r = log[i]
                # result must refer to a later step of this scenario, in order
                found = None
                for k in range(pos, len(steps)):
                    if steps[k]["name"] == r["name"] and steps[k]["line"] == r["line"]:
                        found = k
                        break
                if found is None:
                    return (i, "result-for-step-out-of-order")
                pos = found + 1
                i += 1
        if cb(i) != "eof":
            return (i, "expected-eof-got-%s" % cb(i))
        i += 1
    return None


def processed_steps(world, hist, pred, sid, node):
    """Indices of steps of scenario sid for which Step.run was invoked
    (model's view), or None if unknown."""
    exp = pred.steps.get(sid)
    if exp is None or pred.dead:
        return None
    rec = pred.scen.get(sid, {})
    out = []
    for i, e in enumerate(exp):
        why = e.get("why")
        if why in ("returned", "assert", "exception", "notimpl", "interrupt", "skip-scenario", "async-incomplete",
                   "converter-error", "no-definition", "before_step-failed", "after_step-failed"):
            out.append(i)
        elif why == "dry-run":
            out.append(i)
        elif e.get("allowed") is None:
            return None
    return out


def check_C15(world, hist, pred):
    out = []
    if hist.get("config_error"):
        return out
    cfg = world["cfg"]
    idx = census_index(hist)
    logs = hist.get("rec_logs") or []
    if hist.get("escaped"):
        return out
    for k, log in enumerate(logs):
        bad = check_rec_grammar(log)
        if bad is not None:
            pos, why = bad
            out.append(V("C15", "event-grammar", why, recorder=k, at=pos,
                         around=[(e["cb"], e.get("name") or e.get("id")) for e in log[max(0, pos - 4):pos + 3]]))
            break
    if len(logs) >= 2:
        a = [(e["cb"], e.get("name"), e.get("id"), e.get("status")) for e in logs[0]]
        b = [(e["cb"], e.get("name"), e.get("id"), e.get("status")) for e in logs[-1]]
        if a != b:
            out.append(V("C15", "formatters-disagree", "recorders", first=len(a), last=len(b)))
    # one match+result per processed step (model) -- via recorder 0
    if logs and not pred.dead and not cfg.get("continue_after_failed"):
        results = {}
        cur = None
        for e in logs[0]:
            if e["cb"] == "scenario":
                cur = e["id"]
                results[cur] = []
            elif e["cb"] == "result" and cur is not None:
                results[cur].append((e["name"], e["line"], e["status"]))
        for sid, res in sorted(results.items()):
            node = idx.get(sid)
            if node is None:
                continue
            if pred.scen.get(sid, {}).get("attempts", 1) > 1:
                continue
            want = processed_steps(world, hist, pred, sid, node)
            if want is None:
                continue
            want_l = [(node["steps"][i]["name"], node["steps"][i]["line"]) for i in want]
            got_l = [(r[0], r[1]) for r in res]
            if want_l != got_l:
                out.append(V("C15", "event-grammar", "results-vs-processed-steps", scen=sid,
                             model=want_l, actual=got_l))
                break
            for (nm, ln, st), i in zip(res, want):
                if st != node["steps"][i]["status"]:
                    out.append(V("C15", "event-grammar", "result-status-not-final:%s->%s" % (st, node["steps"][i]["status"]),
                                 scen=sid, step=nm))
                    break
    # --- built-in reports
    shown_order = []
    if logs:
        shown_order = [e["id"] for e in logs[0] if e["cb"] == "scenario"]
    n_stdout = sum(1 for _n, o in cfg["formatters"] if not o)
    for name, outp in cfg["formatters"]:
        text = None
        if outp:
            text = hist["artifacts"].get(outp)
        elif n_stdout == 1 and not hist["markers"] and name == "plain":
            # the only formatter on stdout, and no user output anywhere in this world: what reached
            # the terminal IS its report (plus the summary, which has no step lines)
            text = "".join(c[2] for c in hist["tty_out"])
            outp = "<stdout>"
        if name in ("json", "json.pretty"):
            if outp is None:
                continue
            out.extend(check_json(world, hist, pred, idx, text, outp, shown_order))
        elif name == "plain" and outp:
            out.extend(check_plain(world, hist, pred, idx, text, outp, logs))
        elif name in ("progress", "progress2") and outp:
            out.extend(check_progress(world, hist, pred, idx, text, outp, logs, name))
    return out


def check_json(world, hist, pred, idx, text, outp, shown_order):
    out = []
    if text is None:
        out.append(V("C15", "json-invalid", "file-missing", file=outp))
        return out
    try:
        data = json.loads(text)
    except ValueError as e:
        out.append(V("C15", "json-invalid", "not-json", file=outp, error=str(e)[:200], tail=text[-200:]))
        return out
    if not isinstance(data, list):
        out.append(V("C15", "json-structure", "top-level-not-list"))
        return out
    census_feats = {f["name"]: f for f in hist["census"]}
    for jf in data:
        cf = census_feats.get(jf.get("name"))
        if cf is None:
            out.append(V("C15", "json-structure", "unknown-feature", name=jf.get("name")))
            continue
        if jf.get("status") != cf["status"]:
            out.append(V("C15", "json-status-misplaced", "feature:%s->%s" % (cf["status"], jf.get("status")),
                         feature=cf["id"]))
        scen_nodes = []

        def walk(n):
            if n["kind"] == "scenario":
                scen_nodes.append(n)
            for it in n.get("items", []):
                walk(it)
        walk(cf)
        by_loc = {}
        for n in scen_nodes:
            by_loc["%s:%d" % (cf["filename"], n["line"])] = n
        bg_by_loc = {}
        for holder in [cf] + [it for it in cf.get("items", []) if it["kind"] == "rule"]:
            bg = holder.get("background")
            if bg and bg.get("line"):
                bg_by_loc["%s:%d" % (cf["filename"], bg["line"])] = bg
        last_pos = -1
        for el in jf.get("elements", []):
            if el.get("type") == "background":
                if "status" in el and el["status"] is not None:
                    out.append(V("C15", "json-status-misplaced", "background-has-status:%s" % el["status"],
                                 feature=cf["id"], location=el.get("location")))
                bg = bg_by_loc.get(el.get("location"))
                if bg is not None and [s.get("name") for s in el.get("steps", [])] != bg["steps"]:
                    out.append(V("C15", "json-structure", "background-steps", feature=cf["id"], location=el.get("location"),
                                 json=[s.get("name") for s in el.get("steps", [])], model=bg["steps"]))
                continue
            n = by_loc.get(el.get("location"))
            if n is None:
                out.append(V("C15", "json-structure", "unknown-scenario", location=el.get("location")))
                continue
            pos = scen_nodes.index(n)
            if pos <= last_pos:
                out.append(V("C15", "json-structure", "scenario-order", location=el.get("location")))
            last_pos = pos
            if el.get("name") != n["name"]:
                out.append(V("C15", "json-structure", "scenario-name", location=el.get("location"),
                             json=el.get("name"), census=n["name"]))
            if el.get("status") != n["status"]:
                out.append(V("C15", "json-status-misplaced",
                             "scenario:%s->%s" % (n["status"], el.get("status")),
                             scen=n["id"], location=el.get("location")))
            jsteps = el.get("steps", [])
            if [s.get("name") for s in jsteps] != [s["name"] for s in n["steps"]]:
                out.append(V("C15", "json-structure", "steps", scen=n["id"],
                             json=[s.get("name") for s in jsteps], census=[s["name"] for s in n["steps"]]))
                continue
            retried = pred.scen.get(n["id"], {}).get("attempts", 1) > 1
            for js, cs in zip(jsteps, n["steps"]):
                res = js.get("result")
                if res is not None and res.get("status") != cs["status"] and not retried:
                    out.append(V("C15", "json-status-misplaced", "step:%s->%s" % (cs["status"], res.get("status")),
                                 scen=n["id"], step=cs["name"]))
                jt = js.get("text")
                if isinstance(jt, list):
                    jt = "\n".join(jt)
                if (cs["text"] or None) != (jt or None):
                    out.append(V("C15", "json-structure", "docstring", scen=n["id"], json=jt, census=cs["text"]))
                if cs["table"] is not None and (cs["table"]["rows"] or cs["table"]["headings"]):
                    if js.get("table") != cs["table"] and not (js.get("table") is None and not cs["table"]["rows"]):
                        out.append(V("C15", "json-structure", "table", scen=n["id"], json=js.get("table"), census=cs["table"]))
        # every executed scenario must be present
        present = set(el.get("location") for el in jf.get("elements", []))
        for n in scen_nodes:
            rec = pred.scen.get(n["id"])
            if rec and rec.get("executed") and rec.get("skipped_by") != "hook" and not pred.dead:
                if "%s:%d" % (cf["filename"], n["line"]) not in present:
                    out.append(V("C15", "json-structure", "executed-scenario-missing", scen=n["id"]))
    # read back
    rb = (hist.get("post") or {}).get("json_readback", {}).get(outp)
    if rb is not None:
        if "error" in rb:
            out.append(V("C15", "json-readback", rb["error"].split(":")[0] + "@" + rb.get("where", "?"), error=rb["error"][:300]))
        else:
            want = []
            for jf in data:
                for el in jf.get("elements", []):
                    if el.get("type") == "background":
                        continue
                    want.append([el.get("name"), [[s.get("name"), (s.get("result") or {}).get("status", "untested")]
                                                  for s in el.get("steps", [])]])
            if rb["scenarios"] != want:
                out.append(V("C15", "json-readback", "structure-differs", readback=rb["scenarios"][:3], json=want[:3]))
    return out


def post_C15(runner, config):
    """Reads every JSON report back with behave.json_parser (independent of the oracle's own reader)."""
    import os
    import traceback
    from behave.json_parser import JsonParser
    data = {"json_readback": {}}
    for fmt, opener in zip(config.format or [], config.outputs or []):
        if fmt not in ("json", "json.pretty") or not opener.name:
            continue
        try:
            with open(opener.name, "r", encoding="utf-8") as f:
                jd = json.load(f)
        except Exception as e:
            continue
        try:
            feats = JsonParser().parse_features(jd)
            scen = []
            for f in feats:
                for s in f.scenarios:
                    scen.append([s.name, [[st.name, st.status.name] for st in s.steps]])
            data["json_readback"][opener.name] = {"scenarios": scen}
        except Exception as e:
            tb = traceback.extract_tb(e.__traceback__)
            where = tb[-1].name if tb else "?"
            data["json_readback"][opener.name] = {"error": "%s: %s" % (type(e).__name__, e), "where": where}
    return data


STEP_LINE = re.compile(r"^\s+(Given|When|Then|And|But|\*) (.*?) \.\.\. ([a-z_]+)(?: in -?[0-9.e+]+s)?$")


def _results_by_scenario(logs):
    res = []
    cur = None
    for e in logs[0]:
        if e["cb"] == "scenario":
            cur = [e["id"], e["name"], []]
            res.append(cur)
        elif e["cb"] == "result" and cur is not None:
            cur[2].append((e["name"], e["status"]))
    return res


def check_plain(world, hist, pred, idx, text, outp, logs):
    out = []
    if text is None or not logs or world["cfg"].get("continue_after_failed"):
        return out
    if pred.dead:
        return out
    printed = []
    tlines = text.split("\n")
    following = []          # per printed step: index of the line after the step line
    for k, line in enumerate(tlines):
        m = STEP_LINE.match(line)
        if m:
            printed.append((m.group(2), m.group(3)))
            following.append(k + 1)
    want = []
    want_tables = []
    for sid, name, res in _results_by_scenario(logs):
        node = idx.get(sid)
        if node is None:
            continue
        proc = processed_steps(world, hist, pred, sid, node)
        if proc is None or pred.scen.get(sid, {}).get("attempts", 1) > 1:
            return out
        for i in proc:
            want.append((node["steps"][i]["name"], node["steps"][i]["status"]))
            want_tables.append((sid, i, node["steps"][i].get("table")))
    if printed != want:
        # find first difference
        k = 0
        while k < min(len(printed), len(want)) and printed[k] == want[k]:
            k += 1
        out.append(V("C15", "plain-steps", "differs", file=outp, at=k,
                     printed=printed[k:k + 3], model=want[k:k + 3], n_printed=len(printed), n_model=len(want)))
        return out
    # step tables shown below their step read back (Gherkin cell rules) as the model's table
    if world["cfg"].get("multiline", True):
        for n_, ((sid, i, tbl), at) in enumerate(zip(want_tables, following)):
            if not isinstance(tbl, dict):
                continue
            rows = [tbl["headings"]] + tbl["rows"]
            # the table is printed last for its step (after status and error message): the last
            # len(rows) lines of the final run of row-like lines before the next step line
            end = following[n_ + 1] - 1 if n_ + 1 < len(following) else len(tlines)
            last = None
            for k in range(at, end):
                if split_gherkin_row(tlines[k]) is not None or tlines[k].lstrip().startswith("|"):
                    last = k
            if last is None:
                block = []
            else:
                block = tlines[max(at, last + 1 - len(rows)):last + 1]
            got = [split_gherkin_row(l) for l in block]
            model = [[c.strip() for c in r] for r in rows]
            if got != model:
                k = 0
                while k < min(len(got), len(model)) and got[k] == model[k]:
                    k += 1
                out.append(V("C15", "plain-table", "differs", file=outp, scen=sid, idx=i, row=k,
                             printed=block[k] if k < len(block) else None, model=model[k] if k < len(model) else None))
                break
    return out


def log_filter_must_capture(spec, logger):
    """--logging-filter: a record MUST be in the capture when every reading of the documented
    rule keeps it (names are included, '-names' excluded; behave matches names exactly, the
    documentation also speaks of sub-loggers; what a mixed list does with a logger it does not
    name is not defined): the logger is named by an include (or there are only excludes) and
    neither it nor one of its parents is excluded."""
    if not spec:
        return True
    name = logger or "root"
    inc = [x for x in spec.split(",") if x and not x.startswith("-")]
    exc = [x[1:] for x in spec.split(",") if x.startswith("-")]
    for x in exc:
        if name == x or name.startswith(x + "."):
            return False
    if inc:
        return name in inc
    return True


def split_gherkin_row(line):
    """Cells of one '| a | b |' line by the Gherkin rules: an unescaped '|' separates,
    backslash-pipe, backslash-backslash and backslash-n are escapes.  None if it is no row."""
    t = line.strip()
    if len(t) < 2 or not t.startswith("|"):
        return None
    cells, cur, k = [], [], 1
    closed = False
    while k < len(t):
        ch = t[k]
        if ch == "\\" and k + 1 < len(t) and t[k + 1] in "|\\n":
            cur.append({"|": "|", "\\": "\\", "n": "\n"}[t[k + 1]])
            k += 2
            continue
        if ch == "|":
            cells.append("".join(cur).strip())
            cur = []
            closed = True
        else:
            cur.append(ch)
            closed = False
        k += 1
    if not closed:
        return None
    return cells


DOTS = {"passed": ".", "failed": "F", "error": "E", "hook_error": "H", "skipped": "S", "untested": "_",
        "untested_pending": "p", "untested_undefined": "u", "undefined": "U", "pending": "P", "pending_warn": "p"}


def check_progress(world, hist, pred, idx, text, outp, logs, name):
    """progress: one mark per shown scenario; progress2: one mark per processed step (per feature line)."""
    out = []
    if text is None or not logs or pred.dead or world["cfg"].get("continue_after_failed"):
        return out
    if name not in ("progress", "progress2"):
        return out
    # shown features / scenarios in order (from the recorder), marks expected from the census
    want = []       # (filename, marks)
    cur = None
    for e in logs[0]:
        if e["cb"] == "feature":
            node = idx.get(e["id"])
            cur = [node["filename"] if node else None, ""]
            want.append(cur)
        elif e["cb"] == "scenario" and cur is not None:
            sid = e["id"]
            node = idx.get(sid)
            if node is None or pred.scen.get(sid, {}).get("attempts", 1) > 1:
                return out
            if name == "progress":
                cur[1] += DOTS.get(node["status"], "?")
            else:
                proc = processed_steps(world, hist, pred, sid, node)
                if proc is None:
                    return out
                for i in proc:
                    cur[1] += DOTS.get(node["steps"][i]["status"], "?")
    if name == "progress2":
        # the FAILURE / ERROR sections: each processed step with a failing final status once, under
        # the heading of its status class
        want_problems = []
        for e in logs[0]:
            if e["cb"] == "scenario":
                node = idx.get(e["id"])
                proc = processed_steps(world, hist, pred, e["id"], node) if node else None
                for i in (proc or []):
                    st = node["steps"][i]
                    if st["status"] in ("failed",):
                        want_problems.append(("FAILURE", st["name"]))
                    elif st["status"] in ("error", "hook_error", "undefined", "pending", "cleanup_error"):
                        want_problems.append(("ERROR", st["name"]))
        got_problems = []
        lines_ = text.split("\n")
        for k, line in enumerate(lines_):
            m = re.match(r"^(FAILURE|ERROR) in step '(.*)':$", line)
            if m and k + 1 < len(lines_) and lines_[k + 1].startswith("  Feature:  "):
                got_problems.append((m.group(1), m.group(2)))
        if sorted(got_problems) != sorted(want_problems):
            extra = [x for x in set(got_problems) if got_problems.count(x) > want_problems.count(x)]
            missing = [x for x in set(want_problems) if want_problems.count(x) > got_problems.count(x)]
            out.append(V("C15", "progress-steps", "progress2:problem-sections:%s" % ("listed-twice-or-extra" if extra else "missing"),
                         file=outp, extra=sorted(extra)[:3], missing=sorted(missing)[:3]))
            return out
    got = {}
    for line in text.split("\n"):
        m = re.match(r"^(features/.+?\.feature)  (\S*)\s*$", line)
        if m:
            got[m.group(1)] = m.group(2)
    for fn, marks in want:
        if fn is None:
            continue
        g = got.get(fn)
        if g is None:
            if marks:
                out.append(V("C15", "progress-steps", "%s:feature-line-missing" % name, file=outp, feature=fn))
                break
            continue
        if g != marks:
            out.append(V("C15", "progress-steps", "%s:marks-differ" % name, file=outp, feature=fn,
                         printed=g, model=marks))
            break
    return out


# ---------------------------------------------------------------------------
# C16
# ---------------------------------------------------------------------------
_XML_UNSAFE = re.compile(u"[\\x00-\\x08\\x0b-\\x1f\\x7f-\\x9f\\ufffe\\uffff]|\\]\\]>")


def _xml_safe_head(name):
    return _XML_UNSAFE.split(name, 1)[0]


def _xml_same_name(name, xml_name):
    """A name as the report may show it: characters XML cannot hold are re-written by the reporter
    (how is not specified), everything else must be there unchanged."""
    if name == xml_name:
        return True
    segs = re.split(u"[\\x00-\\x08\\x0b-\\x1f\\x7f-\\x9f\\ufffe\\uffff]", name or u"")
    if len(segs) == 1 or xml_name is None:
        return False
    return re.fullmatch(u".*?".join(re.escape(x) for x in segs), xml_name, re.S) is not None


def check_C16(world, hist, pred):
    out = []
    if hist.get("config_error") or not world["cfg"].get("junit"):
        return out
    if hist.get("escaped"):
        return out
    cfg = world["cfg"]
    show_skipped = bool(cfg.get("show_skipped")) or \
        cfg["userdata"].get("behave.reporter.junit.show_skipped_always") == "true"
    files = {k: v for k, v in hist["artifacts"].items() if k.startswith("reports/")}
    seen_features = set()
    for fname, text in sorted(files.items()):
        for f in hist["census"]:
            stem = f["filename"].rsplit(".", 1)[0].replace("/", ".")
            if fname == "reports/TESTS-%s.xml" % stem or fname.endswith("-" + stem.split("features.", 1)[-1] + ".xml"):
                seen_features.add(f["id"])
        try:
            root = ET.fromstring(text.encode("utf-8", "surrogatepass"))
        except ET.ParseError as e:
            pos = getattr(e, "position", (0, 0))
            lines = text.split("\n")
            ctx = lines[pos[0] - 1][max(0, pos[1] - 30):pos[1] + 30] if 0 < pos[0] <= len(lines) else ""
            where = "attribute" if re.search(r'="[^"]*$', lines[pos[0] - 1][:pos[1]] if 0 < pos[0] <= len(lines) else "") else "text"
            out.append(V("C16", "xml-malformed", "%s:%s" % (where, str(e).split(":")[0]), file=fname,
                         error=str(e), context=repr(ctx)))
            continue
        except Exception as e:
            out.append(V("C16", "xml-malformed", type(e).__name__, file=fname, error=str(e)))
            continue
        # which feature?
        cf = None
        for f in hist["census"]:
            base = f["filename"]
            for p in (world["cfg"].get("paths") or ["features"]):
                pass
            stem = base.rsplit(".", 1)[0].replace("/", ".")
            if fname == "reports/TESTS-%s.xml" % stem or fname.endswith("-" + stem.split("features.", 1)[-1] + ".xml"):
                cf = f
        if cf is None:
            continue
        cases = root.findall("testcase")
        scen = []

        def walk(n):
            if n["kind"] == "scenario":
                scen.append(n)
            for it in n.get("items", []):
                walk(it)
        walk(cf)
        want = [n for n in scen if n["status"] != "skipped" or show_skipped]
        got = [(c.get("name"), c.get("status")) for c in cases]
        wl = [(n["name"], n["status"]) for n in want]
        if len(got) != len(wl) or not all(_xml_same_name(w[0], g[0]) and w[1] == g[1] for g, w in zip(got, wl)):
            k = 0
            while k < min(len(got), len(wl)) and _xml_same_name(wl[k][0], got[k][0]) and got[k][1] == wl[k][1]:
                k += 1
            out.append(V("C16", "testcases-vs-scenarios", "differs", file=fname, at=k,
                         xml=got[k:k + 2], census=wl[k:k + 2], n_xml=len(got), n_census=len(wl)))
            continue
        n_fail = sum(1 for c in cases if c.find("failure") is not None)
        n_err = sum(1 for c in cases if c.find("error") is not None)
        n_skip = sum(1 for c in cases if c.find("skipped") is not None)
        for attr, val in (("tests", len(cases)), ("failures", n_fail), ("errors", n_err), ("skipped", n_skip)):
            try:
                a = int(root.get(attr))
            except Exception:
                a = None
            if a != val:
                out.append(V("C16", "counter-mismatch", attr, file=fname, attribute=a, entries=val))
        for c, n in zip(cases, want):
            st = n["status"]
            if st == "failed" and c.find("failure") is None:
                out.append(V("C16", "missing-failure-entry", "failed-without-failure", scen=n["id"]))
            if st in ERROR_CLASS and c.find("error") is None:
                out.append(V("C16", "missing-failure-entry", "error-without-error:" + st, scen=n["id"]))
            entry = c.find("failure") if st == "failed" else (c.find("error") if st in ERROR_CLASS else None)
            cleanup_unknown = pred.dead and any(e["kind"] == "cleanup" and e.get("raised") for e in hist["events"])
            if entry is not None and not pred.scen.get(n["id"], {}).get("cleanup_failed") and not cleanup_unknown:
                # (a cleanup error is neither a step nor a hook: only the entry itself is required)
                blob = (entry.get("message") or "") + "\n" + "".join(entry.itertext())
                resp = [s for s in n["steps"] if s["status"] in ERROR_CLASS or s["status"] == "failed"]
                if resp:
                    nm = resp[0]["name"]
                    # several candidates can be 'responsible' (failed step, later undefined step, hook)
                    # (characters that XML cannot hold are re-written by the reporter: compare the part before them)
                    if not any(_xml_safe_head(r["name"]) in blob for r in resp) and \
                            not (n.get("hook_failed") and "HOOK-ERROR" in blob):
                        out.append(V("C16", "missing-failure-entry", "step-not-named", scen=n["id"], step=nm))
                elif n.get("hook_failed"):
                    if "HOOK-ERROR" not in blob:
                        out.append(V("C16", "missing-failure-entry", "hook-not-named", scen=n["id"]))
    # every reported feature has a file
    for f in hist["census"]:
        if f["id"] in seen_features:
            continue
        if f["status"] == "skipped" and not show_skipped:
            continue
        if not files and not hist["census"]:
            continue
        out.append(V("C16", "testcases-vs-scenarios", "report-file-missing", feature=f["id"],
                     files=sorted(files)))
    return out


# ---------------------------------------------------------------------------
# C17 (first-run part; the two-run history is driven from props.py)
# ---------------------------------------------------------------------------
def rerun_locations(text):
    return [ln.strip() for ln in text.split("\n") if ln.strip() and not ln.strip().startswith("#")]


def check_C17_file(world, hist, pred):
    out = []
    if hist.get("config_error") or hist.get("escaped"):
        return out
    cfg = world["cfg"]
    for name, outp in cfg["formatters"]:
        if name != "rerun" or not outp:
            continue
        want = []
        for fn, n in census_scenarios(hist):
            if n["status"] == "failed" or n["status"] in ERROR_CLASS:
                want.append("%s:%d" % (fn, n["line"]))
        text = hist["artifacts"].get(outp)
        if not want:
            if text is not None:
                key = "stale-file-kept" if world.get("stale_rerun") else "file-written-without-failures"
                out.append(V("C17", "stale-file", key, file=outp, content=text[:200]))
            continue
        if text is None:
            kinds = sorted(set(n["status"] for fn, n in census_scenarios(hist)
                               if n["status"] == "failed" or n["status"] in ERROR_CLASS))
            fkinds = sorted(set(f["status"] for f in hist["census"]))
            out.append(V("C17", "rerun-content", "file-missing:scenarios=%s" % "+".join(kinds),
                         file=outp, want=want, feature_statuses=fkinds))
            continue
        got = rerun_locations(text)
        if got != want:
            if sorted(got) == sorted(want):
                out.append(V("C17", "rerun-order", "order", got=got, want=want))
            else:
                missing = [w for w in want if w not in got]
                extra = [g for g in got if g not in want]
                stat = {}
                for fn, n in census_scenarios(hist):
                    stat["%s:%d" % (fn, n["line"])] = n["status"]
                kinds = sorted(set(stat.get(m, "?") for m in missing))
                out.append(V("C17", "rerun-content", "missing=%s;extra=%d" % ("+".join(kinds), len(extra)),
                             missing=missing, extra=extra))
    return out


# ---------------------------------------------------------------------------
# C18
# ---------------------------------------------------------------------------
LEVELS = {"DEBUG": 10, "INFO": 20, "WARNING": 30, "ERROR": 40}


def check_C18(world, hist, pred):
    out = []
    if hist.get("config_error") or hist.get("escaped"):
        return out
    cfg = world["cfg"]
    cap = dict(cfg["capture"])
    if cfg.get("wip"):
        cap["stdout"] = False
        cap["log"] = False
    if cfg.get("junit"):        # junit forces capture on (after --wip was applied)
        cap = {"stdout": True, "stderr": True, "log": True}
    if cfg.get("dry_run"):
        return out
    idx = census_index(hist)
    events = hist["events"]
    ev_by_seq = {e["seq"]: e for e in events}

    # the application's own stream handler (pre_handler == 2) legitimately prints log records unless
    # behave was told to clear foreign handlers while it captures logging
    app_stream_handler_active = cfg.get("pre_handler") == 2 and not (cfg.get("logging_clear_handlers") and cap["log"])

    def in_capture_window(e):
        return e["kind"] == "step" or (e["kind"] == "hook" and e["name"].endswith("_step")) or e["depth"] > 0

    # (a) nothing reaches the real streams while a step / step hook is active
    for stream, chunks in (("stdout", hist["tty_out"]), ("stderr", hist["tty_err"])):
        if not cap[stream]:
            continue
        for seq, kind, text in chunks:
            e = ev_by_seq.get(seq)
            if kind is None or e is None:
                continue
            if kind == "step" or (kind == "hook" and in_capture_window(e)):
                if e["kind"] == "cleanup":
                    continue
                ms = [m for m in hist["markers"] if m["m"] in text]
                from_logging = (ms and all(m["stream"] == "log" for m in ms)) or \
                    (not ms and ("filler " in text or re.search(r"SKIP (Scenario|Feature|Rule|ScenarioOutline)", text)))
                # ("SKIP <element>: reason" is behave's own log record for skip(reason=...))
                if from_logging and not cap["log"]:
                    continue    # logging with log capture off passes straight through its handlers
                if from_logging and app_stream_handler_active:
                    continue    # the application's own stream handler was not asked to be cleared
                if from_logging and cap["log"]:
                    stream = "log->" + stream
                out.append(V("C18", "leak-to-real-stream", "%s:during-%s" % (stream, e["kind"] if e["kind"] == "step" else (e.get("name") or e["kind"])),
                             seq=seq, text=text[:80]))
                break
    for e in events:
        if in_capture_window(e) and e["kind"] in ("step", "hook") and "probe" in e:
            for stream in ("stdout", "stderr"):
                if cap[stream] and e["probe"]["%s_is_tty" % stream]:
                    out.append(V("C18", "leak-to-real-stream", "%s:not-swapped-during-%s" % (stream, e["kind"]),
                                 seq=e["seq"], scen=e.get("scen")))
                    break
            else:
                continue
            break
    # (d) real streams restored outside steps
    for e in events:
        if e["depth"] == 0 and e["kind"] in ("hook", "cleanup") and "probe" in e and not in_capture_window(e):
            p = e["probe"]
            if not p["stdout_is_tty"] or not p["stderr_is_tty"]:
                prev = None
                for e2 in events:
                    if e2["seq"] < e["seq"] and e2["kind"] == "step" and e2["depth"] == 0:
                        prev = e2
                out.append(V("C18", "stream-not-restored",
                             "after-step-%s" % ((prev or {}).get("raised") or "ok") if prev else "before-any-step",
                             seq=e["seq"], at=e.get("name") or e["kind"],
                             stdout_is_tty=p["stdout_is_tty"], stderr_is_tty=p["stderr_is_tty"]))
                break
    if hist.get("std_after") and not all(hist["std_after"]):
        out.append(V("C18", "stream-not-restored", "at-end-of-run", after=hist["std_after"]))
    markers = hist["markers"]
    # (b) output of passing scenarios is not shown
    captured_markers = [m for m in markers
                        if (m["ekind"] == "step" or (m["ekind"] == "hook" and str(m["ename"]).endswith("_step")) or m["depth"] > 0)
                        and cap.get(m["stream"] if m["stream"] != "log" else "log")]
    all_tty = "".join(c[2] for c in hist["tty_out"]) + "".join(c[2] for c in hist["tty_err"])
    shown_files = {k: v for k, v in hist["artifacts"].items() if k.startswith("out/")}
    retried = set(s for s, r in pred.scen.items() if r.get("attempts", 1) > 1)
    for m in captured_markers:
        node = idx.get(m["scen"])
        if node is None or m["scen"] in retried:
            continue
        if node["status"] == "passed":
            where = None
            if m["stream"] == "log" and app_stream_handler_active:
                continue
            if m["m"] in all_tty:
                where = "tty"
            else:
                for fn, txt in shown_files.items():
                    if m["m"] in txt:
                        where = fn.split("/")[1].rsplit("_", 1)[0]
            if where:
                out.append(V("C18", "passing-output-shown", "%s:%s" % (m["stream"], where), marker=m["m"], scen=m["scen"]))
                break
    # (c) report of a failing step
    hijacks = []
    for e in events:
        for d in e["did"]:
            if d[0] == "hijack_stream":
                # in force until behave stops the capture of that step (before the next step starts)
                nxt = [x["seq"] for x in events if x["seq"] > e["seq"] and x["depth"] == 0 and
                       ((x["kind"] == "step") or (x["kind"] == "hook" and x["name"] == "before_step"))]
                hijacks.append((e["seq"], d[1], e.get("scen"), min(nxt) if nxt else 10 ** 9))
    level = LEVELS.get(cfg.get("logging_level") or "INFO", 20)
    for sid, node in sorted(idx.items()):
        if node["kind"] != "scenario" or sid in retried:
            continue
        fail = None
        for i, s in enumerate(node["steps"]):
            if s["status"] in ("failed", "error") and s.get("error_message"):
                fail = (i, s)
                break
        if fail is None:
            continue
        i, s = fail
        # the step event of that failing step (last attempt)
        fev = None
        for e in events:
            if e["kind"] == "step" and e["depth"] == 0 and e.get("scen") == sid and e.get("idx") == i:
                fev = e
        if fev is None:
            continue
        # end of the failing step = its after_step hook if present else the step event itself
        end_seq = fev["seq"]
        for e in events:
            if e["seq"] > fev["seq"]:
                if e["depth"] > 0 or (e["kind"] == "hook" and e["name"] == "after_step" and e["eid"] == "%s#%d" % (sid, i)):
                    end_seq = e["seq"]
                else:
                    break
        msg = s["error_message"]
        for m in captured_markers:
            mine = m["scen"] == sid and m["seq"] <= end_seq
            present = m["m"] in msg
            if mine and not present and any(h[1] == m["stream"] and h[0] < m["seq"] < h[3] and h[2] == sid
                                            for h in hijacks):
                continue        # printed into the object the step itself had put in place of the stream
            if mine and not present and m["stream"] == "log" and any(
                    x["kind"] == "step" and x.get("scen") == sid and x["seq"] <= m["seq"] and
                    any(d[0] == "root_level" for d in x["did"]) for x in events):
                continue        # a step of this scenario raised the root logger's own level before
            if mine and not present:
                if m["stream"] == "log":
                    if LEVELS[m["level"]] < level or not log_filter_must_capture(cfg.get("logging_filter"), m.get("logger")):
                        continue
                out.append(V("C18", "report-missing-marker", m["stream"], scen=sid, marker=m["m"],
                             marker_seq=m["seq"], step_seq=fev["seq"]))
                break
            if present and m["scen"] != sid:
                out.append(V("C18", "report-foreign-marker", m["stream"], scen=sid, marker=m["m"], from_scen=m["scen"]))
                break
    # (e) root logger restored at scenario end
    expected = None         # (level, handlers) expected at the next probe outside a scenario window
    last_seq = None
    for e in events:
        if e["depth"] != 0 or "probe" not in e or e["kind"] != "hook":
            continue
        nm = e["name"]
        outside_ = nm in ("before_feature", "after_feature", "before_rule", "after_rule", "after_all") or \
            nm in ("before_tag", "before_scenario") or (nm == "after_tag" and not e.get("scen"))
        if not outside_:
            continue
        p = e["probe"]
        sig = (p["root_level"], tuple(h for h in p["root_handlers"] if not h.startswith("LoggingCapture")))
        ncap = sum(1 for h in p["root_handlers"] if h.startswith("LoggingCapture"))
        if ncap > 1:
            out.append(V("C18", "logger-not-restored", "capture-handlers-pile-up:%d" % ncap, seq=e["seq"]))
            break
        if expected is not None and sig != expected and not cap["log"]:
            # without log capture behave does not touch the root logger: a level set by a step stays
            changed = [d[1] for x in events if last_seq < x["seq"] < e["seq"] and x["kind"] == "step"
                       for d in x["did"] if d[0] == "root_level"]
            if changed and sig == (changed[-1], expected[1]):
                expected = sig
        if expected is not None and sig != expected:
            between = [x for x in events if last_seq < x["seq"] < e["seq"] and x["kind"] == "step"]
            if between:
                what = "level" if sig[0] != expected[0] else "handlers"
                out.append(V("C18", "logger-not-restored", what + "-changed-across-scenario",
                             before=expected, after=sig, seq=e["seq"]))
                break
        lvl = sig[0]
        for d in e["did"]:
            if d[0] == "root_level":
                lvl = d[1]
        expected = (lvl, sig[1])
        last_seq = e["seq"]
    # (f) pass-through when capture is off
    for stream, chunks in (("stdout", hist["tty_out"]), ("stderr", hist["tty_err"])):
        if cap[stream]:
            continue
        text = "".join(c[2] for c in chunks)
        pos = 0
        for m in markers:
            if m["stream"] != stream:
                continue
            k = text.find(m["m"], pos)
            if k < 0:
                out.append(V("C18", "passthrough-broken", stream, marker=m["m"], seq=m["seq"],
                             found_anywhere=m["m"] in text))
                break
            pos = k
    return out
