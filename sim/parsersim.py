# -*- coding: utf-8 -*-
"""C05: file-fault simulator for the Gherkin parser.

The 'storage' the parser reads from is simulated: a valid rendered document is
written with an injected storage fault (torn write after / inside a line, lost
line, duplicated line, reordered adjacent lines) or with one catalogued grammar
violation inserted at a position where it IS a violation.  For every sampled
document ALL (line position x fault kind) combinations are enumerated.

Oracle: the call returns (a model or None) or raises behave.parser.ParserError
whose line lies inside the text (1..number of lines); never another exception
type; for catalogued faults the reported line is the injected line.
"""
from __future__ import annotations

import hashlib
import os
import random
import time

from . import world as W
from .oracles import V

SOUP_POOL = [
    u"Feature: soup", u"Funktionalität: suppe", u"Fonctionnalité: soupe", u"# language: de", u"# language: fr",
    u"# language: en", u"# language: zz", u"# language:", u"# language: {zz}", u"@t {x} %s", u"#language:de", u"Rule: r", u"Regel: r", u"Background:", u"Grundlage: g",
    u"Scenario: s", u"Szenario: s", u"Scénario: s", u"Scenario Outline: o <a>", u"Szenariogrundriss: o",
    u"Examples: e", u"Beispiele: b", u"Scenarios:", u"Example: x", u"Given a step", u"When b", u"Then c",
    u"And d", u"But e", u"* f", u"Angenommen x", u"Wenn y", u"Dann z", u"Und u", u"Aber a",
    u"@tag1", u"@tag1 @tag2", u"@tag bad", u"@", u"@a # comment", u"| a | b |", u"| 1 | 2 |", u"| 1 |", u"|",
    u"| x \\| y | z |", u"| a | b", u'"""', u"'''", u'  """', u"free text", u"", u"   ", u"# comment", u"    # indented comment",
    u"Given", u"Given ", u"Feature:", u"Scenario:", u":", u"Examples", u"\tGiven tabbed", u"Given a step:",
    u"Scenario Template: t", u"Ability: a", u"Business Need: b",
]


def doc_from_seed(rng):
    lib = W.gen_steplib(rng, "small")
    opts = dict(tag_pool=list(W.PLAIN_TAGS), p_tag=rng.choice([0.15, 0.4]), p_undefined=0.1,
                p_doc=0.25, p_table=0.25, p_background=rng.choice([0.0, 0.5, 0.9]),
                p_rule=rng.choice([0.0, 0.3]), p_outline=rng.choice([0.0, 0.3, 0.5]),
                max_items=rng.choice([2, 3]), min_steps=0, max_steps=3)
    feat = W.gen_feature(rng, lib, 0, opts)
    text, lm = W.render_feature(feat, rng, p_noise=0.15)
    if rng.random() < 0.2:
        text = u"# language: en\n" + text
        lm = {k: v + 1 for k, v in lm.items()}
    if rng.random() < 0.25:
        # behave ends a doc-string at a line that STARTS with the quotes: text behind them is ignored
        out_ = []
        opened = False
        variant_ = rng.randrange(2)
        for ln in text.split("\n"):
            st_ = ln.strip()
            if st_ in (u'"""', u"'''"):
                if opened:
                    if variant_ == 0:
                        ln = ln + u" end of text"
                    elif len(ln) - len(ln.lstrip()) >= 2:
                        ln = ln[2:]         # closing quotes indented LESS than the opening ones
                opened = not opened
            out_.append(ln)
        text = u"\n".join(out_)
    return feat, text, lm


def doc_quote_variant(text, rng):
    if rng.random() < 0.3:
        return text.replace('"""', "'''")
    return text


def enumerate_faults(feat, text, lm, rng):
    """Yield (kind, position, faulted_text, expect_line_or_None)."""
    lines = text.split("\n")
    if lines and lines[-1] == "":
        lines = lines[:-1]
    n = len(lines)

    def join(ls):
        return "\n".join(ls) + "\n"
    for k in range(n + 1):
        yield ("torn-after", k, "\n".join(lines[:k]) + ("\n" if k and rng.random() < 0.5 else ""), None)
    for k in range(n):
        L = lines[k]
        if L.startswith(u"# language:"):
            # a language header torn right behind the colon (with and without the blank)
            for torn in (u"# language:", u"# language: "):
                yield ("torn-language-header", k + 1, join(lines[:k] + [torn] + lines[k + 1:]), None)
        for c in sorted(set([1, len(L) // 2, max(1, len(L) - 1)])):
            if 0 < c < len(L):
                yield ("torn-inside", k + 1, "\n".join(lines[:k] + [L[:c]]), None)
        yield ("lost-line", k + 1, join(lines[:k] + lines[k + 1:]), None)
        yield ("dup-line", k + 1, join(lines[:k + 1] + [L] + lines[k + 1:]), None)
        if k + 1 < n:
            yield ("swap-lines", k + 1, join(lines[:k] + [lines[k + 1], L] + lines[k + 2:]), None)
    # --- catalogue: positions where the inserted line IS a violation
    step_lines = sorted(v for k, v in lm.items() if "#" in k)
    header_ids = [k for k in lm if "#" not in k and not k.endswith(".BG") and ".E" not in k and k != feat["id"]]
    in_doc = docstring_lines(lines)

    def insert(at, new):     # new line becomes line number `at` (1-based)
        return join(lines[:at - 1] + [new] + lines[at - 1:])
    # (a 'Feature:' line directly after a Feature/Rule/Scenario header is read as description
    #  text, so it IS a violation only once steps have started)
    for sl in step_lines:
        at = sl + 1
        if inside_doc(at, in_doc):
            continue
        yield ("cat:second-feature", at, insert(at, u"Feature: second"), at)
        yield ("cat:free-text-after-step", at, insert(at, u"  this is not a step"), at)
        # free text whose first word merely STARTS like a step keyword is free text as well
        word = [u"Thenceforth it works", u"Android is fine", u"Butter on top", u"Whenever it rains",
                u"Givenchy is a name"][sl % 5]
        yield ("cat:free-text-after-step-keywordlike", at, insert(at, u"    " + word), at)
    # Examples outside an outline
    for key, sl in lm.items():
        if "#" not in key:
            continue
        owner = key.split("#")[0]
        if ".O" in owner.split(".")[-1] or owner.split(".")[-1].startswith("O"):
            continue
        at = sl + 1
        if inside_doc(at, in_doc):
            continue
        yield ("cat:examples-outside-outline", at, insert(at, u"    Examples: stray"), at)
    # And/But without predecessor
    for hdr, where in first_step_slots(feat, lm):
        yield ("cat:and-without-predecessor", where, insert(where, u"    And nothing before me"), where)
    # wrong cell count
    for k in range(n):
        s = lines[k].strip()
        if s.startswith("|") and s.endswith("|") and not inside_doc(k + 1, in_doc):
            ncell = s.count("|") - s.count("\\|") - 1
            # only rows that are followed by / part of a table with a heading: insert AFTER this row
            if ncell != 5:
                yield ("cat:table-wrong-cell-count", k + 2, insert(k + 2, u"      | a | b | c | d | e |"), k + 2)
                # ... also after a comment / blank line inside the table (both are legal there)
                gap = rng.choice([[u"      # a comment inside the table"], [u""], [u"  # c", u""]])
                ftext = join(lines[:k + 1] + gap + [u"      | a | b | c | d | e |"] + lines[k + 1:])
                yield ("cat:table-wrong-cell-count-after-gap", k + 2 + len(gap), ftext, k + 2 + len(gap))
    # Examples outside an outline, directly below the tag line(s) of the next statement
    ents = sorted((v, k) for k, v in lm.items() if "#" not in k and ".E" not in k)
    for hid in header_ids:
        at = lm[hid]
        if at < 2 or not lines[at - 2].strip().startswith("@"):
            continue
        prev = [k for v, k in ents if v < at]
        if prev and prev[-1].split(".")[-1].startswith("O"):
            continue
        yield ("cat:examples-outside-outline-after-tags", at, insert(at, u"    Examples: stray"), at)
    # after a tag line only a taggable statement may follow: anything else is a violation at that line
    for hid in header_ids:
        at = lm[hid]
        if at < 2 or not lines[at - 2].strip().startswith("@"):
            continue
        for nm, new in (("feature", u"Feature: second"), ("text", u"  free text here"),
                        ("background", u"  Background: late"), ("step", u"    Given a step")):
            yield ("cat:%s-after-tags" % nm, at, insert(at, new), at)
    # malformed tag token
    for hid in header_ids:
        at = lm[hid]
        yield ("cat:malformed-tag", at, insert(at, u"  @good bad-token"), at)
        # (faulty user text that ends up quoted in the error message: braces, percent signs)
        yield ("cat:malformed-tag-braces", at, insert(at, u"  @good {bad} %s %(x)d"), at)
        yield ("cat:malformed-tag-after-tab", at, insert(at, u"  @good\tbad-token"), at)
    # second background
    for key, v in lm.items():
        if key.endswith(".BG"):
            owner = key[:-3]
            bsteps = [lv for kk, lv in lm.items() if kk.startswith(key + "#")]
            if bsteps:
                at = max(bsteps) + 1
                if not inside_doc(at, in_doc) and not lines[at - 1].strip().startswith(("|", '"""', "'''")) if at - 1 < n else True:
                    yield ("cat:second-background", at, insert(at, u"  Background: again"), at)


def docstring_lines(lines):
    """1-based line numbers strictly inside a doc-string (between the quotes)."""
    inside = set()
    term = None
    for i, L in enumerate(lines):
        s = L.strip()
        if term is None:
            if s.startswith('"""') or s.startswith("'''"):
                term = s[:3]
        else:
            if s.startswith(term):
                term = None
            else:
                inside.add(i + 1)
    return inside


def inside_doc(at, in_doc):
    """Would a line inserted as line `at` land inside a doc-string?"""
    return at in in_doc or ((at - 1) in in_doc)


def first_step_slots(feat, lm):
    """(header id, line) where 'And x' inserted as the first step has no predecessor."""
    out = []
    fbg = bool(feat.get("background") and feat["background"]["steps"])

    def scen(it, has_bg):
        if has_bg:
            return
        out.append((it["id"], lm[it["id"]] + 1))
    if feat.get("background"):
        out.append((feat["id"] + ".BG", lm[feat["id"] + ".BG"] + 1))
    for it in feat["items"]:
        if it["kind"] == "rule":
            rbg = bool(it.get("background") and it["background"]["steps"])
            if it.get("background") and not fbg:
                out.append((it["id"] + ".BG", lm[it["id"] + ".BG"] + 1))
            for x in it["items"]:
                scen(x, fbg or rbg)
        else:
            scen(it, fbg)
    return out


# ---------------------------------------------------------------------------
def call_entry(entry, text, root):
    from behave import parser
    if entry == "file":
        p = os.path.join(root, "case.feature")
        with open(p, "wb") as f:
            f.write(text.encode("utf-8"))
        return parser.parse_file(p)
    if entry == "feature":
        return parser.parse_feature(text)
    if entry == "steps":
        return parser.parse_steps(text)
    if entry == "scenario":
        return parser.parse_scenario(text)
    if entry == "rule":
        return parser.parse_rule(text)
    if entry == "tags":
        return parser.parse_tags(text)
    raise ValueError(entry)


def judge(entry, text, kind, expect_line, root):
    from behave.parser import ParserError
    nlines = len(text.splitlines())
    t0 = time.time()
    try:
        call_entry(entry, text, root)
    except ParserError as e:
        line = e.line
        if not isinstance(line, int) or line < 1 or line > max(nlines, 1):
            return V("C05", "line-out-of-range", "%s:%s" % (entry, "line-%s" % ("0" if line == 0 else ("none" if line is None else "past-end"))),
                     entry=entry, fault=kind, line=line, nlines=nlines)
        if expect_line is not None and line != expect_line:
            return V("C05", "line-not-at-fault", "%s:%s" % (entry, kind), entry=entry, fault=kind,
                     reported=line, injected=expect_line)
        return None
    except RecursionError as e:
        return V("C05", "hang", "%s:RecursionError" % entry, fault=kind)
    except Exception as e:      # noqa
        import traceback
        tb = traceback.extract_tb(e.__traceback__)
        where = "?"
        for fr in reversed(tb):
            if fr.filename.endswith("parser.py") or "/behave/" in fr.filename:
                where = "%s:%s" % (os.path.basename(fr.filename), fr.name)
                break
        key = "%s:%s@%s" % (entry, type(e).__name__, where)
        return V("C05", "foreign-exception", key, entry=entry, fault=kind, where=where, error=str(e)[:200])
    finally:
        dt = time.time() - t0
    if dt > 2.0:
        return V("C05", "hang", "%s:slow" % entry, seconds=dt, fault=kind)
    if expect_line is not None:
        return V("C05", "line-not-at-fault", "%s:%s:accepted" % (entry, kind), entry=entry, fault=kind,
                 reported=None, injected=expect_line)
    return None


def sub_documents(feat, text, lm, rng):
    """Texts for the rule / scenario / steps / tags entry points, cut out of the document."""
    lines = text.split("\n")
    out = []
    ids = sorted((v, k) for k, v in lm.items() if "#" not in k and not k.endswith(".BG") and ".E" not in k)
    bounds = [v for v, k in ids] + [len(lines) + 1]
    for i, (ln, k) in enumerate(ids):
        if k == feat["id"]:
            continue
        block = lines[ln - 1:bounds[i + 1] - 1]
        last = k.split(".")[-1]
        if last.startswith("R"):
            # rule block extends to the next rule / EOF
            nxt = [v for v, kk in ids if v > ln and kk.split(".")[-1].startswith("R") and kk.count(".") == k.count(".")]
            end = (nxt[0] - 1) if nxt else len(lines)
            # drop the tag lines that belong to the next header
            out.append(("rule", "\n".join(lines[ln:end]) + "\n"))
        else:
            body = block[1:]
            # parse_scenario's natural input starts with the Scenario header line
            out.append(("scenario", "\n".join(block) + "\n"))
            if rng.random() < 0.3:
                out.append(("scenario", "\n".join(body) + "\n"))
            out.append(("steps", "\n".join(body) + "\n"))
    tags = [L.strip() for L in lines if L.strip().startswith("@")]
    for t in tags[:3]:
        out.append(("tags", t))
    return out


def faults_for_subdoc(entry, text, rng):
    lines = text.split("\n")
    if lines and lines[-1] == "":
        lines = lines[:-1]
    n = len(lines)
    for k in range(n + 1):
        yield ("torn-after", k, "\n".join(lines[:k]))
    for k in range(n):
        L = lines[k]
        if len(L) > 2:
            yield ("torn-inside", k + 1, "\n".join(lines[:k] + [L[:len(L) // 2]]))
        yield ("lost-line", k + 1, "\n".join(lines[:k] + lines[k + 1:]) + "\n")
        yield ("dup-line", k + 1, "\n".join(lines[:k + 1] + [L] + lines[k + 1:]) + "\n")
        if k + 1 < n:
            yield ("swap-lines", k + 1, "\n".join(lines[:k] + [lines[k + 1], L] + lines[k + 2:]) + "\n")
    for k in range(n + 1):
        for new in (u"Rule: stray", u"Scenario Outline: stray", u"Feature: stray", u"Examples: stray",
                    u"| a | b", u"Background: stray", u"@x y"):
            yield ("insert:" + new.split(":")[0].split(" ")[0], k + 1, "\n".join(lines[:k] + [new] + lines[k:]) + "\n")


_quiet = []


def evaluate(seed, hashseed, root, stats):
    if not _quiet:
        import logging
        lg = logging.getLogger("behave")
        lg.addHandler(logging.NullHandler())
        lg.propagate = False
        _quiet.append(1)
    rng = random.Random(seed)
    out = []
    dig = hashlib.sha1()
    feat, text, lm = doc_from_seed(rng)
    text = doc_quote_variant(text, rng)
    ncases = 0

    def record(entry, kind, ftext, v):
        world = {"seed": seed, "hashseed": hashseed, "parser_case": True, "entry": entry,
                 "fault": kind, "text": ftext}
        out.append((world, v, {"expect_line": v["detail"].get("injected")}))

    # baseline: the un-faulted document must parse
    v = judge("file", text, "none", None, root)
    if v is not None:
        record("file", "none", text, v)
    for kind, pos, ftext, expect in enumerate_faults(feat, text, lm, rng):
        entry = "file" if (ncases % 7 == 0) else "feature"
        v = judge(entry, ftext, kind, expect, root)
        ncases += 1
        stats.fired[kind] = stats.fired.get(kind, 0) + 1
        dig.update(("%s:%s:%s|" % (kind, pos, (v or {}).get("key"))).encode("utf-8"))
        if v is not None:
            record(entry, kind, ftext, v)
    for entry, sub in sub_documents(feat, text, lm, rng):
        v = judge(entry, sub, "none", None, root)
        ncases += 1
        if v is not None:
            record(entry, "none", sub, v)
        if entry == "tags":
            for bad in (sub + " oops", sub.replace("@", "", 1), sub + " #c", "@"):
                v = judge("tags", bad, "tags-variant", None, root)
                ncases += 1
                stats.fired["tags-variant"] = stats.fired.get("tags-variant", 0) + 1
                if v is not None:
                    record("tags", "tags-variant", bad, v)
            continue
        for kind, pos, ftext in faults_for_subdoc(entry, sub, rng):
            v = judge(entry, ftext, kind, None, root)
            ncases += 1
            k2 = "%s/%s" % (entry, kind)
            stats.fired[k2] = stats.fired.get(k2, 0) + 1
            dig.update(("%s:%s:%s|" % (k2, pos, (v or {}).get("key"))).encode("utf-8"))
            if v is not None:
                record(entry, kind, ftext, v)
    # line soups
    for _ in range(30):
        n = rng.randint(1, 12)
        soup = "\n".join(("  " * rng.randint(0, 3)) + rng.choice(SOUP_POOL) for _ in range(n))
        entry = rng.choice(["feature", "feature", "file", "steps", "scenario", "rule"])
        v = judge(entry, soup, "soup", None, root)
        ncases += 1
        stats.fired["soup/" + entry] = stats.fired.get("soup/" + entry, 0) + 1
        dig.update(("soup:%s|" % ((v or {}).get("key"),)).encode("utf-8"))
        if v is not None:
            record(entry, "soup", soup, v)
    stats.runs += ncases
    sig = hashlib.sha1(text.encode("utf-8")).hexdigest()[:16]
    stats.sigs.add(sig)
    if len(text.splitlines()) > 5:
        stats.nontrivial_sigs.add(sig)
    if len(stats.samples) < 2:
        stats.samples.append({"document": text, "cases_enumerated": ncases,
                              "example_fault": "lost-line / dup-line / swap / torn-* at every line; catalogue faults at every eligible position"})
    # de-duplicate: one record per fingerprint per document
    seen = set()
    uniq = []
    for (w, v, c) in out:
        fp = (v["rule"], v["key"])
        if fp in seen:
            continue
        seen.add(fp)
        uniq.append((w, v, c))
    return uniq, dig.hexdigest()


def reproduce(world, root, ctx):
    v = judge(world["entry"], world["text"], world["fault"], (ctx or {}).get("expect_line"), root)
    return [v] if v is not None else []


def minimise(world, violation, spec, root, ctx, budget=200):
    """ddmin over the lines of the text (only when no exact line is expected)."""
    if (ctx or {}).get("expect_line") is not None:
        return world
    want = (violation["rule"], violation["key"])
    lines = world["text"].split("\n")
    evals = 0
    changed = True
    while changed and evals < budget:
        changed = False
        for k in reversed(range(len(lines))):
            if evals >= budget or len(lines) <= 1:
                break
            cand = lines[:k] + lines[k + 1:]
            w2 = dict(world)
            w2["text"] = "\n".join(cand)
            evals += 1
            vs = reproduce(w2, root, ctx)
            if any((v["rule"], v["key"]) == want for v in vs):
                lines = cand
                changed = True
    w = dict(world)
    w["text"] = "\n".join(lines)
    w["minimised"] = {"evaluations": evals}
    return w
