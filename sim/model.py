# -*- coding: utf-8 -*-
"""Reference model of behave's run semantics, written from the property
statements (C01, C02, C09, C10, C12, C13) and docs/appendix.status.rst.

It is a lock-step *acceptor*: it walks the abstract world in run order and
consumes the recorded top-level event log; at every point it knows which
events MUST come next and which MAY.  It advances with the OBSERVED outcome of
each event (what the shim saw itself do), so it never guesses outcomes.
The first divergence is recorded as a violation and trace checking stops
for this run (no cascades).

Outputs (Prediction):
  violations   list of dicts {rules: [(prop, rule)], key, detail, seq}
  steps        {scenario id: [ {allowed: set(status), why: str} ... ]} for
               scenarios the model could follow to the end
  scen         {scenario id: {selected, executed, failed, ...}}
  verdict      expected 'failed' boolean or None (unknown)
"""
from __future__ import annotations

import re

from . import world as W


class Prediction(object):
    def __init__(self):
        self.violations = []
        self.steps = {}
        self.scen = {}
        self.cont = {}
        self.verdict = None
        self.verdict_reasons = []
        self.aborted = False
        self.stopped = False
        self.dead = False
        self.notes = {}
        self.features_loaded = []


def scenario_own_tags(sc):
    return list(sc["tags"])


def model_scenario_name(ol, row, schema=None):
    """Documented default schema: '{name} -- @{row.id} {examples.name}'."""
    return u"%s -- @%d.%d %s" % (row["name_core"], row["e"] + 1, row["r"] + 1, row["ex_name"])


class Selection(object):
    """Static selection: tags (with inheritance), names, file locations."""

    def __init__(self, world, hist):
        self.world = world
        cfg = world["cfg"]
        self.cfg = cfg
        self.census_names = {}
        for f in hist.get("census", []):
            self._collect_names(f)
        self.tagexpr = cfg.get("tagexpr")
        if cfg.get("wip"):
            wip = ["tag", "wip"]
            self.tagexpr = ["and", self.tagexpr, wip] if self.tagexpr else wip
        self.name_re = None
        if cfg.get("names"):
            self.name_re = re.compile(u"|".join(cfg["names"]), re.UNICODE)
        # file selection
        self.loaded = []        # feature ids in run order
        self.loc = {}           # feature id -> None (all) | list of lines
        paths = cfg.get("paths")
        if paths is None:
            feats = sorted(world["features"], key=lambda f: _walk_key(f["path"]))
            self.loaded = [f["id"] for f in feats]
            for f in feats:
                self.loc[f["id"]] = None
        else:
            by_path = {f["path"]: f for f in world["features"]}
            last = None
            for p in paths:
                m = re.match(r"^(.*):(\d+)$", p)
                fn, ln = (m.group(1), int(m.group(2))) if m else (p, None)
                f = by_path.get(fn)
                if f is None:
                    continue        # a location that names no feature of this world (stale list file)
                if f["id"] != last:
                    self.loaded.append(f["id"])
                    self.loc[f["id"]] = []
                    last = f["id"]
                self.loc[f["id"]].append(ln)
        self.loc_selected = {}  # scenario id -> True/False/None(ambiguous)
        self.by_tags = {}
        self.by_name = {}
        for feat, rule, ol, sc in W.walk_scenarios(world):
            sid = sc["id"]
            eff = W.effective_tags(feat, rule, ol, sc)
            self.by_tags[sid] = (W.eval_tagexpr(self.tagexpr, eff)
                                 if self.tagexpr else True)
            nm = self.census_names.get(sid)
            if nm is None:
                nm = sc["name"] if "name" in sc else model_scenario_name(ol, sc)
            self.by_name[sid] = bool(self.name_re.search(nm)) if self.name_re else True
        for feat in world["features"]:
            self._loc_select(feat)

    def _collect_names(self, node):
        if node["kind"] == "scenario":
            self.census_names[node["id"]] = node["name"]
        for it in node.get("items", []):
            self._collect_names(it)

    def _loc_select(self, feat):
        world = self.world
        fid = feat["id"]
        lines = self.loc.get(fid)
        scen_ids = []
        ents = [(0, "feature", fid)]
        ents.append((world["lines"][fid], "feature", fid))

        def add(it, rule):
            if it["kind"] == "rule":
                ents.append((world["lines"][it["id"]], "rule", it["id"]))
                for x in it["items"]:
                    add(x, it)
            elif it["kind"] == "outline":
                ents.append((world["lines"][it["id"]], "outline", it["id"]))
                for row in W.outline_rows(it):
                    ents.append((world["lines"][row["id"]], "scenario", row["id"]))
                    scen_ids.append((row["id"], row))
            else:
                ents.append((world["lines"][it["id"]], "scenario", it["id"]))
                scen_ids.append((it["id"], it))
        for it in feat["items"]:
            add(it, None)
        if lines is None or any(l is None or l == 0 for l in lines) and False:
            for sid, _ in scen_ids:
                self.loc_selected[sid] = True
            return
        if fid not in self.loc:
            for sid, _ in scen_ids:
                self.loc_selected[sid] = False
            return
        if any(not l for l in lines):
            # bare file name or only line 0 -> all
            for sid, _ in scen_ids:
                self.loc_selected[sid] = True
            return
        ents.sort(key=lambda e: e[0])
        chosen = set()
        for l in lines:
            if not l:
                continue    # ':0' adds nothing beyond the other locations
            best = None
            for e in ents:
                if e[0] <= l:
                    best = e
            kind, eid = best[1], best[2]
            for sid, _ in scen_ids:
                if sid == eid or sid.startswith(eid + "."):
                    chosen.add(sid)
        for sid, sc in scen_ids:
            if sid in chosen:
                self.loc_selected[sid] = True
            else:
                own = set(sc["tags"])
                if "setup" in own or "teardown" in own:
                    self.loc_selected[sid] = True     # exempt from skipping
                else:
                    self.loc_selected[sid] = False

    def selected(self, sid):
        return bool(self.loc_selected.get(sid, True) and self.by_tags[sid]
                    and self.by_name[sid])

    def why_not(self, sid):
        if not self.loc_selected.get(sid, True):
            return "location"
        if not self.by_name[sid]:
            return "name"
        if not self.by_tags[sid]:
            return "tags"
        return None


def _walk_key(path):
    # os.walk order used by behave: directory entries sorted; files of a
    # directory before its sub-directories
    parts = path.split("/")
    return (parts[:-1], parts[-1])


class Acceptor(object):
    def __init__(self, world, hist):
        self.world = world
        self.hist = hist
        self.cfg = world["cfg"]
        self.hooks = set(world["hooks"])
        evs = []
        cur = None
        for e in hist["events"]:
            if e["depth"] == 0 and e["kind"] in ("hook", "step", "cleanup"):
                cur = dict(e)
                cur["all_did"] = list(e["did"])
                cur["nested_raised"] = []
                cur["nested"] = []
                evs.append(cur)
            elif cur is not None:
                cur["all_did"].extend(e["did"])
                cur["nested"].append(e)
                if e.get("raised"):
                    cur["nested_raised"].append((e["kind"], e.get("name"), e["raised"]))
        self.evs = evs
        self.i = 0
        self.p = Prediction()
        self.sel = Selection(world, hist)
        self.p.features_loaded = list(self.sel.loaded)
        self.layers = []        # stack of [layer name, [cids]]
        self.ctx = []           # dict-stack model of the context (C13)
        self.ctx_violation = False
        self.dry = bool(self.cfg.get("dry_run"))
        self.stop = bool(self.cfg.get("stop")) or bool(self.cfg.get("wip"))
        self.cont_after = bool(self.cfg.get("continue_after_failed"))
        self.aborted = False
        self.any_fail = []
        # registration order (observed): module load order x def order in module
        lib = world["steplib"]
        order = []
        mods = hist.get("modules_loaded") or [m["id"] for m in lib["modules"]]
        for mid in mods:
            mi = int(mid[1:])
            for d in lib["defs"]:
                if d["module"] == mi:
                    order.append(d)
        self.def_order = order
        self.def_rx = {d["id"]: W.def_regex(d) for d in lib["defs"]}

    # -- matching (model side) ---------------------------------------------
    def match_def(self, stype, text):
        """type-specific list first, then generic; earlier before later."""
        spec = [d for d in self.def_order if d["type"] == stype]
        gen = [d for d in self.def_order if d["type"] == "step"] if stype != "step" else []
        for d in spec + gen:
            m = self.def_rx[d["id"]].match(text)
            if m:
                return d, m
        return None, None

    # -- event cursor --------------------------------------------------------
    def peek(self):
        if self.p.dead:
            return None
        return self.evs[self.i] if self.i < len(self.evs) else None

    def violate(self, rules, key, detail, ev=None):
        if self.p.dead:
            return
        self.p.violations.append({"rules": rules, "key": key, "detail": detail,
                                  "seq": ev["seq"] if ev else None})
        self.p.dead = True

    def classify_unexpected(self, got, expected_desc, hint):
        """An event that the model did not allow at this point."""
        rules = []
        k = got["kind"]
        scen = got.get("scen")
        desel = scen is not None and scen in self.sel.by_tags and not self.sel.selected(scen)
        why = self.sel.why_not(scen) if desel else None
        if k == "step":
            if self.dry:
                rules.append(("C02", "dry-run-called"))
            elif desel:
                rules.append(("C09" if why == "tags" else "C10", "executed-not-selected"))
            elif hint == "after-nonpass":
                rules.append(("C02", "call-after-nonpass"))
            elif hint == "skip-rest":
                rules.append(("C02", "skip-scenario-rest"))
            elif hint == "body-suppressed":
                rules.append(("C12", "body-after-failed-before"))
            elif hint in ("stopped", "aborted"):
                rules.append(("C12", "stop-not-honoured"))
                rules.append(("C01", "run-continued-after-stop"))
            else:
                rules.append(("C02", "call-order"))
            key = "step:%s" % hint
        elif k == "hook":
            if self.dry:
                rules.append(("C12", "hook-in-dry-run"))
            elif desel:
                rules.append(("C12", "hook-for-skipped"))
                rules.append(("C09" if why == "tags" else "C10", "hook-for-deselected"))
            elif hint == "body-suppressed":
                rules.append(("C12", "body-after-failed-before"))
            elif hint in ("stopped", "aborted"):
                rules.append(("C12", "stop-not-honoured"))
            elif hint in ("after-nonpass", "skip-rest"):
                rules.append(("C12", "hook-for-skipped"))
                rules.append(("C02", "call-after-nonpass"))
            else:
                rules.append(("C12", "nesting"))
            key = "hook:%s:%s" % (got.get("name"), hint)
        elif k == "cleanup":
            rules.append(("C13", "cleanup-wrong-time"))
            key = "cleanup:%s" % hint
        else:
            rules.append(("C02", "stale-status-after-rerun"))
            key = "attempt:%s" % hint
        self.violate(rules, key, {"expected": expected_desc, "got": _evdesc(got), "hint": hint}, got)

    def classify_missing(self, expected_desc, kind, name, hint):
        got = self.peek()
        if got is not None:
            # something else came instead
            return self.classify_unexpected(got, expected_desc, hint or "instead-of-" + kind)
        rules = []
        if kind == "hook":
            if name.startswith("after"):
                rules.append(("C12", "after-missing"))
            else:
                rules.append(("C12", "nesting"))
            key = "missing-hook:%s" % name
        elif kind == "step":
            rules.append(("C02", "call-order"))
            key = "missing-step"
        elif kind == "cleanup":
            rules.append(("C13", "cleanup-missing"))
            key = "missing-cleanup"
        else:
            rules.append(("C02", "call-order"))
            key = "missing-" + kind
        self.violate(rules, key, {"expected": expected_desc, "got": None, "hint": hint})

    def take_hook(self, name, eid, tag="", mode="must", hint=None):
        """Consume a hook event if it is next. mode: must|may."""
        if self.p.dead or name not in self.hooks or self.dry:
            return None
        ev = self.peek()
        if ev is not None and ev["kind"] == "hook" and ev["name"] == name \
                and ev["eid"] == eid and ev["tag"] == tag:
            self.i += 1
            self.after_event(ev)
            return ev
        if mode == "must":
            self.classify_missing("hook %s %s %s" % (name, eid, tag), "hook", name, hint)
        return None

    def paired_tags(self, tags, before_ran):
        """after_tag hooks pair with the before_tag hooks that ran (strict nesting); when no
        before_tag hook is defined every own tag gets its after_tag."""
        if "before_tag" in self.hooks and not self.dry:
            return list(before_ran)
        return list(tags)

    def take_after_tags(self, eid, tags, mode="must"):
        """after_tag hooks: one per own tag; any order accepted."""
        if self.p.dead or "after_tag" not in self.hooks or self.dry:
            return []
        remaining = list(tags)
        out = []
        while remaining and not self.p.dead:
            ev = self.peek()
            if ev is not None and ev["kind"] == "hook" and ev["name"] == "after_tag" \
                    and ev["eid"] == eid and ev["tag"] in remaining:
                remaining.remove(ev["tag"])
                self.i += 1
                self.after_event(ev)
                out.append(ev)
                continue
            if mode == "must":
                self.classify_missing("hook after_tag %s %s" % (eid, remaining), "hook", "after_tag", None)
            break
        return out

    def ctx_visible(self, name):
        for frame in reversed(self.ctx):
            if name in frame:
                return frame[name]
        return None

    def ctx_check_and_apply(self, ev):
        probe = (ev.get("probe") or {}).get("ctx")
        if probe is not None and not self.ctx_violation:
            for name, actual in sorted(probe.items()):
                want = self.ctx_visible(name)
                if actual != want:
                    if want is None:
                        rule = "leak-after-scope"
                    elif actual is None:
                        rule = "visibility"
                    elif isinstance(actual, str) and actual.startswith("!"):
                        rule = "visibility"
                    else:
                        rule = "shadow-altered-outer"
                    self.ctx_violation = True
                    self.p.violations.append({
                        "rules": [("C13", rule)], "key": "ctx:%s:%s" % (rule, ev["kind"]),
                        "detail": {"name": name, "model": want, "actual": actual,
                                   "at": _evdesc(ev), "depth": len(self.ctx)},
                        "seq": ev["seq"]})
                    break
        for d in ev["did"]:
            if d[0] == "set" and self.ctx:
                self.ctx[-1][d[1]] = d[2]
            elif d[0] == "set-failed" and not self.ctx_violation:
                self.ctx_violation = True
                self.p.violations.append({
                    "rules": [("C13", "visibility")], "key": "ctx:set-raised:%s" % d[2],
                    "detail": {"name": d[1], "raised": d[2], "at": _evdesc(ev)}, "seq": ev["seq"]})
            elif d[0] == "del" and self.ctx:
                here = d[1] in self.ctx[-1]
                want = "ok" if here else "AttributeError"
                if d[2] != want and not self.ctx_violation:
                    self.ctx_violation = True
                    self.p.violations.append({
                        "rules": [("C13", "delete-wrong-scope")], "key": "ctx:delete:%s" % d[2],
                        "detail": {"name": d[1], "model": want, "actual": d[2], "at": _evdesc(ev)},
                        "seq": ev["seq"]})
                if d[2] == "ok":
                    self.ctx[-1].pop(d[1], None)
            elif d[0] == "text_table_same" and not (d[1] and d[2]):
                self.p.violations.append({
                    "rules": [("C13", "text-table-not-restored")], "key": "execute_steps:text-table",
                    "detail": {"at": _evdesc(ev), "text_same": d[1], "table_same": d[2]},
                    "seq": ev["seq"]})

    def after_event(self, ev):
        """Bookkeeping for a consumed event: cleanup registrations, failures."""
        if "probe" in ev or ev["did"]:
            self.ctx_check_and_apply(ev)
        for ne in ev.get("nested", []):
            if ne["kind"] in ("hook", "step"):
                self.ctx_check_and_apply(ne)
        for d in ev["all_did"]:
            if d[0] == "cleanup":
                _, cid, kind, layer = d
                info = self.hist["cleanups"].get(cid, {})
                if kind == "fixture_plain" or info.get("setup_raises"):
                    continue
                target = None
                if layer:
                    for lay in reversed(self.layers):
                        if lay[0] == layer:
                            target = lay
                            break
                else:
                    target = self.layers[-1] if self.layers else None
                if target is not None:
                    target[1].append(cid)
        if ev.get("raised"):
            self.any_fail.append((ev["kind"], ev.get("name"), ev["raised"], ev["seq"]))
        if any(d[0] == "skip_container" for d in ev["all_did"]) and not self.p.dead:
            # user code skipped the enclosing feature / rule while it was running: what of the
            # remainder still runs is not fixed by any property - trace checking ends here, the
            # checks over the final model (roll-up, reports) stay in force
            self.p.notes["container_skipped_midrun"] = True
            self.p.dead = True
        if ev["kind"] == "hook" and ev.get("raised") == "KeyboardInterrupt":
            # an interrupt inside a hook aborts the run; what still runs afterwards is not
            # specified by any property: trace checking ends here, the end-of-run checks
            # (exit code, streams, logger) stay in force
            self.p.notes["hook_interrupt"] = ev["name"]
            # C13: the scopes the interrupt cuts short still end: their cleanups run, innermost
            # scope first, LIFO within a scope, each exactly once
            inner = [cid for lay in reversed(self.layers[1:]) for cid in reversed(lay[1])]
            # ... and the test run's own scope ends last (with what after_all still registers)
            root = list(self.layers[0][1]) if self.layers else []
            for e in self.evs[self.i:]:
                for d in e.get("all_did", []):
                    if d[0] == "cleanup" and d[2] != "fixture_plain" and \
                            not self.hist["cleanups"].get(d[1], {}).get("setup_raises"):
                        root.append(d[1])
            inner = inner + list(reversed(root))
            innerset = set(inner)
            rest = [e["cid"] for e in self.evs[self.i:] if e["kind"] == "cleanup" and e["cid"] in innerset]
            if rest != inner and not self.p.dead:
                self.p.violations.append({
                    "rules": [("C13", "cleanup-missing")],
                    "key": "after-interrupt-in-hook:%s" % ("step-hook" if ev["name"].endswith("_step") else
                                                          ev["name"].split("_", 1)[0] + "-hook"),
                    "detail": {"hook": _evdesc(ev), "model": inner, "observed": rest,
                               "layers": [l[0] for l in self.layers]},
                    "seq": ev["seq"]})
            self.p.dead = True

    def barrier(self, eid, hint):
        """The next event must not belong to the inside of element `eid`."""
        ev = self.peek()
        if ev is None:
            return
        inside = False
        for k in ("scen", "eid"):
            v = ev.get(k)
            if v and (v == eid or v.startswith(eid + ".") or v.startswith(eid + "#")):
                inside = True
        if ev["kind"] == "hook" and ev.get("eid") == eid and not ev["name"].endswith("_step"):
            inside = False      # the element's own after-phase
        if ev["kind"] == "cleanup":
            inside = False
        if inside:
            self.classify_unexpected(ev, "no more events inside %s" % eid, hint)

    # -- cleanups --------------------------------------------------------------
    def push(self, name):
        self.layers.append([name, []])
        self.ctx.append({})

    def pop(self):
        """Expect the layer's cleanups LIFO, each exactly once. Returns True if one raised."""
        name, cids = self.layers.pop()
        self.ctx.pop()
        raised = False
        for cid in reversed(cids):
            if self.p.dead:
                break
            ev = self.peek()
            if ev is not None and ev["kind"] == "cleanup" and ev["cid"] == cid:
                self.i += 1
                self.after_event(ev)
                if ev.get("raised"):
                    raised = True
                continue
            if ev is not None and ev["kind"] == "cleanup" and ev["cid"] in cids:
                self.violate([("C13", "cleanup-order")], "cleanup-order:%s" % name,
                             {"expected": cid, "got": ev["cid"], "layer": name, "order": cids}, ev)
                break
            if ev is not None and ev["kind"] == "cleanup":
                self.violate([("C13", "cleanup-wrong-time")], "cleanup-foreign:%s" % name,
                             {"expected": cid, "got": ev["cid"], "layer": name}, ev)
                break
            self.classify_missing("cleanup %s (layer %s)" % (cid, name), "cleanup", cid, "layer-end")
            break
        return raised

    # -- run -------------------------------------------------------------------
    def run(self):
        p = self.p
        world = self.world
        self.push("testrun")
        ev = self.take_hook("before_all", "", "")
        if ev is not None and ev.get("raised"):
            self.aborted = True
            p.notes["before_all_failed"] = True
        feats = {f["id"]: f for f in world["features"]}
        halted = None
        for fid in self.sel.loaded:
            feat = feats[fid]
            if self.aborted or halted:
                self.mark_unreached_feature(feat, "aborted" if self.aborted else "stopped")
                continue
            failed = self.run_container(feat, "feature", feat, None)
            if failed and (self.stop or self.aborted):
                halted = "stopped"
                p.stopped = True
        self.take_hook("after_all", "", "")
        if self.pop():
            p.notes["testrun_cleanup_failed"] = True
        if not p.dead:
            ev = self.peek()
            if ev is not None:
                hint = "aborted" if self.aborted else ("stopped" if halted else "after-run")
                self.classify_unexpected(ev, "end of log", hint)
        p.aborted = self.aborted
        self.compute_verdict()
        return p

    def mark_unreached_feature(self, feat, why):
        for f, rule, ol, sc in W.walk_scenarios({"features": [feat]}):
            self.p.scen[sc["id"]] = {"selected": self.sel.selected(sc["id"]), "reached": False,
                                     "executed": False, "why": why}

    def container_mode(self, c, feat, rule):
        """must | may | never for the hooks of a feature / rule."""
        if self.dry:
            return "never"
        ids = []
        tagmatch = False
        for f, r, ol, sc in W.walk_scenarios({"features": [feat]}):
            if c is feat or (r is not None and r["id"] == c["id"]):
                ids.append(sc["id"])
                if self.sel.by_tags[sc["id"]]:
                    tagmatch = True
        if any(self.sel.selected(s) for s in ids):
            return "must"
        if self.sel.tagexpr is not None:
            own = set(feat["tags"]) | (set(rule["tags"]) if rule is not None else set())
            if c is feat:
                own = set(feat["tags"])
            # 'never' only when NOTHING in the subtree satisfies the expression: not the container's
            # own (effective) tags, no scenario, and no enclosed rule / outline by its own effective
            # tags either (a rule whose tags match makes its feature a MAY although no scenario is selected)
            inner = False
            items = c["items"]
            for it in items:
                base = set(own)
                if it["kind"] == "rule":
                    if W.eval_tagexpr(self.sel.tagexpr, base | set(it["tags"])):
                        inner = True
                    for x in it["items"]:
                        if x["kind"] == "outline" and W.eval_tagexpr(
                                self.sel.tagexpr, base | set(it["tags"]) | set(t for t in x["tags"] if "<" not in t)):
                            inner = True
                elif it["kind"] == "outline":
                    if W.eval_tagexpr(self.sel.tagexpr, base | set(t for t in it["tags"] if "<" not in t)):
                        inner = True
            if not tagmatch and not inner and not W.eval_tagexpr(self.sel.tagexpr, own):
                return "never"
        return "may"

    def run_container(self, c, kind, feat, rule):
        p = self.p
        eid = c["id"]
        mode = self.container_mode(c, feat, rule)
        self.push(kind)
        rec = {"mode": mode, "hook_failed": False, "started": False, "cleanup_failed": False,
               "skipped_by_hook": False, "child_failed": False}
        p.cont[eid] = rec
        hooks_ran = False
        body = True
        failed = False
        if mode != "never":
            m = mode
            started = False
            hook_raised = False
            btags = []
            for t in c["tags"]:
                ev = self.take_hook("before_tag", eid, t, "may" if hook_raised else m)
                if ev is not None:
                    btags.append(t)
                    started = True
                    m = "must"
                    if ev.get("raised"):
                        hook_raised = True
                        rec["failed_hook"] = ("before_tag", t)
                    if _did(ev, "skip_element"):
                        rec["skipped_by_hook"] = True
            ev = self.take_hook("before_" + kind, eid, "", "may" if hook_raised else m)
            if ev is not None:
                started = True
                if ev.get("raised"):
                    hook_raised = True
                    rec["failed_hook"] = ("before_" + kind, "")
                if _did(ev, "skip_element"):
                    rec["skipped_by_hook"] = True
            # 'started' is only knowable through events; when no hook of this
            # level is defined the phase has trivially started iff mode==must
            hooks_ran = started or mode == "must"
            rec["started"] = hooks_ran
            rec["hook_failed"] = hook_raised
            if hook_raised:
                body = False
                failed = True
            if rec["skipped_by_hook"]:
                body = False
        if body:
            hint = None
            for it in c["items"]:
                if self.p.dead:
                    break
                if it["kind"] == "rule":
                    f2 = self.run_container(it, "rule", feat, it)
                elif it["kind"] == "outline":
                    f2 = self.run_outline(it, feat, rule)
                else:
                    f2 = self.run_scenario(it, feat, rule, None)
                if f2:
                    failed = True
                    rec["child_failed"] = True
                    if self.stop or self.aborted:
                        self.mark_rest_unreached(c, it, feat, rule)
                        break
        else:
            self.mark_body_suppressed(c, feat, rule, "hook-failed" if rec["hook_failed"] else "skipped-by-hook")
        self.barrier(eid, "body-suppressed" if not body else
                     ("stopped" if (failed and (self.stop or self.aborted)) else "extra-in-container"))
        if mode != "never" and hooks_ran:
            hint = "body-suppressed" if not body else ("stopped" if (failed and (self.stop or self.aborted)) else None)
            ev = self.take_hook("after_" + kind, eid, "", "must", hint)
            if ev is not None and ev.get("raised"):
                rec["hook_failed"] = True
                rec.setdefault("failed_hook", ("after_" + kind, ""))
                failed = True
            for ev in self.take_after_tags(eid, self.paired_tags(c["tags"], btags), "must"):
                if ev.get("raised"):
                    rec["hook_failed"] = True
                    rec.setdefault("failed_hook", ("after_tag", ev["tag"]))
                    failed = True
        elif mode == "may":
            # no before-hook was observable: the after phase MAY run
            ev = self.take_hook("after_" + kind, eid, "", "may")
            if ev is not None and ev.get("raised"):
                rec["hook_failed"] = True
                failed = True
            for ev in self.take_after_tags(eid, c["tags"], "may"):
                if ev.get("raised"):
                    rec["hook_failed"] = True
                    failed = True
        if self.pop():
            rec["cleanup_failed"] = True
            failed = True
        rec["failed"] = failed
        return failed

    def mark_rest_unreached(self, c, after_item, feat, rule):
        seen = False
        for it in c["items"]:
            if it is after_item:
                seen = True
                continue
            if not seen:
                continue
            for sid in _scenario_ids(it):
                self.p.scen[sid] = {"selected": self.sel.selected(sid), "reached": False,
                                    "executed": False, "why": "stopped"}

    def mark_body_suppressed(self, c, feat, rule, why):
        for it in c["items"]:
            for sid in _scenario_ids(it):
                self.p.scen[sid] = {"selected": self.sel.selected(sid), "reached": False,
                                    "executed": False, "why": why}

    def run_outline(self, ol, feat, rule):
        failed = False
        rows = W.outline_rows(ol)
        for k, row in enumerate(rows):
            if self.p.dead:
                break
            f2 = self.run_scenario(row, feat, rule, ol)
            if f2:
                failed = True
                if self.stop or self.aborted:
                    for r2 in rows[k + 1:]:
                        self.p.scen[r2["id"]] = {"selected": self.sel.selected(r2["id"]),
                                                 "reached": False, "executed": False, "why": "stopped"}
                    break
        return failed

    def run_scenario(self, sc, feat, rule, ol):
        sid = sc["id"]
        plan = self.world.get("autoretry", {}).get(sid)
        patched = plan and "before_feature" in self.hooks and not self.dry \
            and self.p.cont.get(feat["id"], {}).get("started")
        if not patched:
            return self.run_scenario_once(sc, feat, rule, ol, 0)
        failed = True
        for att in range(plan):
            if self.p.dead:
                break
            failed = self.run_scenario_once(sc, feat, rule, ol, att, last=(att == plan - 1))
            self.p.scen[sid]["attempts"] = att + 1
            if not failed:
                break
        return failed

    def run_scenario_once(self, sc, feat, rule, ol, att, last=True):
        p = self.p
        sid = sc["id"]
        selected = self.sel.selected(sid)
        steps = W.all_steps_of(feat, rule, sc)
        rec = {"selected": selected, "reached": True, "executed": False, "failed": False,
               "hook_failed": False, "cleanup_failed": False, "why": None,
               "skipped_by": None, "att": att}
        p.scen[sid] = rec
        eff = W.effective_tags(feat, rule, ol, sc)
        wip = "wip" in eff
        if self.dry or not selected:
            rec["why"] = "dry-run" if (self.dry and selected) else "deselected"
            if self.dry and selected:
                st_exp = []
                for _id, st in steps:
                    d, _m = self.match_def(st["type"], st["text"])
                    st_exp.append({"allowed": {"untested"} if d else {"undefined", "untested_undefined", "untested"},
                                   "why": "dry-run", "def": d["id"] if d else None})
                    if not d:
                        rec["dry_undefined"] = True
                p.steps[sid] = st_exp
            else:
                p.steps[sid] = [{"allowed": {"skipped"}, "why": "deselected"} for _ in steps]
            return False
        self.push("scenario")
        rec["executed"] = True
        failed = False
        hook_raised = False
        skipped_by_hook = False
        tags = scenario_own_tags(sc)
        btags = []
        for t in tags:
            ev = self.take_hook("before_tag", sid, t, "may" if hook_raised else "must")
            if ev is not None:
                btags.append(t)
                if ev.get("raised"):
                    hook_raised = True
                    rec["failed_hook"] = ("before_tag", t)
                if _did(ev, "skip_element"):
                    skipped_by_hook = True
        ev = self.take_hook("before_scenario", sid, "", "may" if hook_raised else "must")
        if ev is not None:
            if ev.get("raised"):
                hook_raised = True
                rec["failed_hook"] = ("before_scenario", "")
            if _did(ev, "skip_element"):
                skipped_by_hook = True
        st_exp = []
        if skipped_by_hook:
            rec["skipped_by"] = "hook"
        if hook_raised:
            failed = True
            rec["hook_failed"] = True
            st_exp = [{"allowed": {"untested", "skipped"}, "why": "before-hook-failed"} for _ in steps]
            hint = "body-suppressed"
        elif skipped_by_hook:
            rec["skipped_by"] = "hook"
            st_exp = [{"allowed": {"skipped"}, "why": "skipped-by-hook"} for _ in steps]
            hint = "body-suppressed"
        else:
            failed, st_exp, hint = self.run_steps(sc, sid, steps, wip, rec)
        p.steps[sid] = st_exp
        if last or not failed:
            self.barrier(sid, hint or "extra-step")
        ev = self.take_hook("after_scenario", sid, "", "must", hint)
        if ev is not None and ev.get("raised"):
            rec["hook_failed"] = True
            rec.setdefault("failed_hook", ("after_scenario", ""))
            failed = True
        for ev in self.take_after_tags(sid, self.paired_tags(tags, btags), "must"):
            if ev.get("raised"):
                rec["hook_failed"] = True
                rec.setdefault("failed_hook", ("after_tag", ev["tag"]))
                failed = True
        if self.pop():
            rec["cleanup_failed"] = True
            failed = True
        rec["failed"] = failed
        return failed

    def run_steps(self, sc, sid, steps, wip, rec):
        """Returns (failed, expectations, hint-for-next-unexpected)."""
        running = True
        failed = False
        skip_rest = False
        hint = None
        exp = []
        loose = False       # continue_after_failed_step: only mapping is checked
        for idx, (_stepid, st) in enumerate(steps):
            d, m = self.match_def(st["type"], st["text"])
            e = {"allowed": None, "why": None, "def": d["id"] if d else None, "ev": None}
            if d is not None:
                e["exp_args"] = self.expected_args(d, m)
            exp.append(e)
            if self.p.dead:
                e["allowed"] = None
                continue
            if not running and not loose:
                if skip_rest:
                    # (after an earlier non-pass in continue_after_failed_step mode both
                    #  readings of the statement apply to a step without definition)
                    e["allowed"] = {"skipped"} if (d or not failed) else {"skipped", "undefined"}
                    e["why"] = "scenario-skipped-by-step"
                else:
                    e["allowed"] = {"skipped"} if d else {"undefined"}
                    e["why"] = "after-nonpass"
                continue
            heid = "%s#%d" % (sid, idx)
            mode = "may" if loose else "must"
            if d is None:
                # undefined: no step function; step hooks MAY
                self.take_hook("before_step", heid, "", "may")
                self.take_hook("after_step", heid, "", "may")
                e["allowed"] = {"undefined"}
                e["why"] = "no-definition"
                rec["nonpass"] = rec.get("nonpass") or ("undefined", idx)
                failed = True
                running = False
                hint = "after-nonpass"
                if self.cont_after:
                    loose = True
                continue
            bev = self.take_hook("before_step", heid, "", mode)
            if loose and bev is None and "before_step" in self.hooks:
                # step not run in loose mode
                nxt = self.peek()
                if not (nxt is not None and nxt["kind"] == "step" and nxt.get("scen") == sid and nxt.get("idx") == idx):
                    e["allowed"] = None
                    continue
            conv_error = self.converter_fails(d, m)
            sev = None
            if bev is not None and bev.get("raised"):
                # failing before-hook keeps the element's body from running
                aev = self.take_hook("after_step", heid, "", "must", "body-suppressed")
                e["allowed"] = {"hook_error"}
                e["why"] = "before_step-failed"
                rec["step_hook_failed"] = True
                failed = True
                running = False
                hint = "after-nonpass"
                if self.cont_after:
                    loose = True
                continue
            if not conv_error:
                nxt = self.peek()
                if nxt is not None and nxt["kind"] == "step" and nxt.get("scen") == sid and nxt.get("idx") == idx:
                    self.i += 1
                    self.after_event(nxt)
                    sev = nxt
                elif loose:
                    e["allowed"] = None
                    continue
                else:
                    self.classify_missing("step %s #%d (%s)" % (sid, idx, d["id"]), "step", d["id"],
                                          hint)
                    e["allowed"] = None
                    continue
            e["ev"] = sev
            aev = self.take_hook("after_step", heid, "", "must")
            # --- outcome -> status (C02 mapping)
            if conv_error:
                allowed, nonpass = {"error"}, True
                e["why"] = "converter-error"
            else:
                r = sev.get("raised")
                if r is None and sev.get("async") and not sev.get("completed"):
                    # the coroutine never ran to its end (timed out / cancelled): the step function
                    # did NOT return, so the step must not be reported as passed
                    allowed, nonpass = {"failed", "error"}, True
                    e["why"] = "async-incomplete"
                elif r is None:
                    if _did_direct(sev, "skip_scenario"):
                        allowed, nonpass = {"skipped"}, False
                        skip_rest = True
                        e["why"] = "skip-scenario"
                    else:
                        allowed, nonpass = {"passed"}, False
                        e["why"] = "returned"
                elif r == "AssertionError":
                    allowed, nonpass = {"failed"}, True
                    e["why"] = "assert"
                elif r == "StepNotImplementedError":
                    if wip:
                        allowed, nonpass = {"pending_warn"}, False
                    else:
                        allowed, nonpass = {"pending"}, True
                    e["why"] = "notimpl"
                elif r == "KeyboardInterrupt":
                    allowed, nonpass = {"error", "failed"}, True
                    self.aborted = True
                    e["why"] = "interrupt"
                else:
                    allowed, nonpass = {"error"}, True
                    e["why"] = "exception"
                # nested interrupt (inside execute_steps) aborts the run as well
                for nk, nn, nr in sev["nested_raised"]:
                    if nr == "KeyboardInterrupt":
                        self.aborted = True
                # a step function run through execute_steps() that raises makes execute_steps() raise
                # in the caller (the shim never swallows it): the calling step cannot return normally
                if r is None and any(nk == "step" for nk, nn, nr in sev["nested_raised"]):
                    self.violate([("C02", "status-map"), ("C01", "false-green")], "nested-step-failure-swallowed",
                                 {"scen": sid, "idx": idx, "nested": [list(x) for x in sev["nested_raised"]][:3]}, sev)
            if aev is not None and aev.get("raised"):
                allowed, nonpass = {"hook_error"}, True
                e["why"] = "after_step-failed"
                rec["step_hook_failed"] = True
                skip_rest = False       # the step did not pass: first-non-pass rule applies
            e["allowed"] = allowed
            if nonpass:
                failed = True
                rec["nonpass"] = rec.get("nonpass") or (sorted(allowed)[0], idx)
                running = False
                hint = "after-nonpass"
                if self.cont_after:
                    loose = True
            elif skip_rest:
                running = False
                loose = False
                hint = "skip-rest"
                rec["skipped_by"] = "step"
        return failed, exp, hint

    def expected_args(self, d, m):
        """(positional list, keyword dict) the step function must receive (C11):
        converted by the declared converter; named by keyword, anonymous by position."""
        args, kwargs = [], {}
        gi = 0
        for tok in d["tokens"]:
            if tok[0] not in ("fld", "opt"):
                continue
            gi += 1
            try:
                raw = m.group(gi)
                val = None if raw is None else W.convert_value(tok[2], raw, d["matcher"], W.tok_card(tok))
            except Exception:
                return None
            if tok[1]:
                kwargs[tok[1]] = val
            else:
                args.append(val)
        return [args, kwargs]

    def converter_fails(self, d, m):
        if d["matcher"] == "re":
            return False
        gi = 0
        for tok in d["tokens"]:
            if tok[0] in ("fld", "opt"):
                gi += 1
                if tok[0] == "fld" and tok[2] == "Color" and \
                        set(["BAD", "WORSE", "ASSERT"]) & set(x.strip() for x in (m.group(gi) or "").split(",")):
                    return True
        return False

    # -- verdict (C01) ---------------------------------------------------------
    def compute_verdict(self):
        p = self.p
        if p.dead:
            p.verdict = None
            return
        reasons = []
        for kind, name, raised, seq in self.any_fail:
            if kind == "hook":
                reasons.append("hook-raised:%s" % name)
            elif kind == "cleanup":
                reasons.append("cleanup-raised")
        for sid, rec in p.scen.items():
            if rec.get("executed") and rec.get("nonpass"):
                reasons.append("step-%s" % (rec["nonpass"][0],))
            if rec.get("dry_undefined"):
                reasons.append("dry-run-undefined")
            if rec.get("step_hook_failed"):
                reasons.append("step-hook")
        if self.aborted:
            reasons.append("aborted")
        for sid, rec in p.scen.items():
            if rec.get("attempts", 1) > 1:
                p.notes["retried"] = True
        p.verdict = bool(reasons)
        p.verdict_reasons = sorted(set(reasons))


def _did(ev, what):
    return any(d[0] == what for d in ev["all_did"])


def _did_direct(ev, what):
    return any(d[0] == what for d in ev["did"])


def _evdesc(ev):
    return {k: ev.get(k) for k in ("seq", "kind", "name", "eid", "tag", "scen", "idx", "cid", "raised")
            if ev.get(k) is not None}


def _scenario_ids(it):
    if it["kind"] == "rule":
        out = []
        for x in it["items"]:
            out.extend(_scenario_ids(x))
        return out
    if it["kind"] == "outline":
        return [r["id"] for r in W.outline_rows(it)]
    return [it["id"]]
