# -*- coding: utf-8 -*-
"""Per-property check specifications (which engine, which profile, which oracle)."""
from __future__ import annotations

import copy
import hashlib
import random

from . import world as W
from . import runtime as R
from . import model as M
from . import oracles as O

COMMON_ASSUMPTIONS = [
    "behave is imported from /repo's working tree and run in-process through behave.configuration.Configuration + behave.__main__.run_behave",
    "user code is generated shims delegating to the simulator runtime; clock, hostname, terminal size and the two TTY objects are simulator-owned",
    "the reference model (sim/model.py, ~700 lines) is trusted; where the property is silent it is permissive (DESIGN.md 2.3)",
    "sampling, not enumeration, of worlds: a clean batch is evidence, not proof",
]


def _record_sample(stats, world, hist, extra=None):
    if len(stats.samples) < 3 and (len(hist["events"]) > 3 or not stats.samples):
        from .driver import sample_of
        stats.samples.append(sample_of(world, hist, extra))


def run_and_judge(prop, world, root, stats, oracle_fns):
    hist = R.run_world(world, root)
    pred = M.Acceptor(world, hist).run()
    if stats is not None:
        stats.note_run(world, hist)
        _record_sample(stats, world, hist)
    vs = []
    for fn in oracle_fns:
        vs.extend(fn(world, hist, pred))
    esc = O.escaped_violation(hist)
    if esc is not None:
        if esc["prop"] == prop and not any(v["key"] == esc["key"] for v in vs):
            vs.append(esc)
        elif esc["prop"] == "HARNESS":
            raise RuntimeError("exception escaped outside behave: %r" % (esc,))
        elif stats is not None:
            stats.probe("escaped-owned-by-" + esc["prop"])
    return vs, hist, pred


def make_runsim(prop, oracle_fns, profile, extra_probe=None):
    def eval_world(world, root, stats):
        vs, hist, pred = run_and_judge(prop, world, root, stats, oracle_fns)
        if extra_probe and stats is not None:
            extra_probe(world, hist, pred, stats)
        return [(world, v, None) for v in vs if v["prop"] == prop], R.history_digest(hist)

    def evaluate(seed, hashseed, root, stats):
        world = W.gen_world(seed, profile=profile)
        world["hashseed"] = hashseed
        return eval_world(world, root, stats)

    def reproduce(world, root, ctx):
        vs, _d = eval_world(world, root, None)
        return [v for (_w, v, _c) in vs]
    return evaluate, reproduce


# ---------------------------------------------------------------------------
# profiles (swarm bias per property)
# ---------------------------------------------------------------------------
def prof_C01(d, rng):
    if not d["outcomes"] and rng.random() < 0.7:
        d["outcomes"] = rng.sample(["assert", "exc", "notimpl", "kbi", "skip"], rng.randint(1, 3))
        d["p_fail"] = rng.choice([0.05, 0.15, 0.3])
    d["junit"] = d["junit"] and rng.random() < 0.3
    d["stop"] = rng.random() < 0.3
    d["dry_run"] = rng.random() < 0.12
    d["wip"] = rng.random() < 0.08
    d["autoretry"] = False
    if rng.random() < 0.3:
        # a single raising hook or cleanup in an otherwise passing run
        d["outcomes"] = []
        d["p_fail"] = 0.0
        d["p_undefined"] = 0.0
        d["hooks"] = [h for h in W.HOOK_NAMES if rng.random() < 0.7]
        d["p_hook_fail"] = rng.choice([0.0, 0.03])
        d["cleanups"] = True
        d["p_cleanup_fail"] = rng.choice([0.0, 0.1])


def prof_C02(d, rng):
    if rng.random() < 0.8:
        d["outcomes"] = rng.sample(["assert", "exc", "notimpl", "kbi", "skip"], rng.randint(1, 4))
        d["p_fail"] = rng.choice([0.1, 0.2, 0.35])
    d["p_undefined"] = rng.choice([0.0, 0.05, 0.15, 0.25])
    d["steplib"] = "rich" if rng.random() < 0.5 else "small"
    d["autoretry"] = rng.random() < 0.15
    if d["autoretry"]:
        d["outcomes"] = [o for o in d["outcomes"] if o not in ("kbi", "skip")]
        d["hook_skips"] = False
        if "before_feature" not in d["hooks"]:
            d["hooks"].append("before_feature")
    d["continue_after_failed"] = rng.random() < 0.08
    d["nested"] = rng.random() < 0.25
    d["opts"] = {"p_background": rng.choice([0.3, 0.6, 0.9])}


def prof_C03(d, rng):
    prof_C02(d, rng)
    d["stop"] = rng.random() < 0.35
    d["p_hook_fail"] = rng.choice([0.0, 0.05, 0.15])
    d["tagsel"] = rng.random() < 0.5
    d["dry_run"] = rng.random() < 0.1
    d["hook_skips"] = rng.random() < 0.2


def prof_C09(d, rng):
    d["tagsel"] = True
    d["namesel"] = False
    d["locsel"] = False
    d["autoretry"] = False
    d["p_hook_fail"] = rng.choice([0.0, 0.0, 0.05])
    if not d["hooks"] and rng.random() < 0.7:
        d["hooks"] = [h for h in W.HOOK_NAMES if rng.random() < 0.6]


def prof_C10(d, rng):
    d["tagsel"] = rng.random() < 0.2
    r = rng.random()
    d["namesel"] = r < 0.4
    d["locsel"] = r >= 0.3
    d["autoretry"] = False
    if not d["hooks"] and rng.random() < 0.7:
        d["hooks"] = [h for h in W.HOOK_NAMES if rng.random() < 0.6]
    d["size"] = rng.choice(["small", "medium", "medium"])


def prof_C12(d, rng):
    hooks = [h for h in W.HOOK_NAMES if rng.random() < 0.7]
    if not hooks:
        hooks = ["before_scenario", "after_scenario"]
    d["hooks"] = hooks
    d["p_hook_fail"] = 0.0
    d["autoretry"] = False
    d["size"] = rng.choice(["tiny", "small", "small", "medium"])
    d["stop"] = rng.random() < 0.25
    d["dry_run"] = rng.random() < 0.05
    d["hook_skips"] = rng.random() < 0.1
    d["junit"] = False
    d["p_cleanup_fail"] = 0.0


def prof_C13(d, rng):
    d["ctx"] = True
    d["cleanups"] = True
    d["p_cleanup_fail"] = rng.choice([0.0, 0.15, 0.3])
    d["nested"] = rng.random() < 0.4
    d["autoretry"] = False
    if len(d["hooks"]) < 3:
        d["hooks"] = [h for h in W.HOOK_NAMES if rng.random() < 0.7]
    d["junit"] = False


# ---------------------------------------------------------------------------
# C12: fault enumeration over every hook invocation of the fault-free run
# ---------------------------------------------------------------------------
def inject(world, key, kind):
    w = dict(world)
    script = dict(world["script"])
    ent = dict(script.get(key) or {"acts": [], "out": {"kind": "ok"}})
    if kind == "assert":
        ent["out"] = {"kind": "assert", "msg": "injected assert"}
    else:
        ent["out"] = {"kind": "exc", "cls": "Exception", "msg": "injected exception"}
    script[key] = ent
    w["script"] = script
    return w


def _abort_point(hist):
    for e in hist["events"]:
        if e.get("raised") == "KeyboardInterrupt":
            return e.get("key")
        if e["kind"] == "hook" and e.get("raised") and e.get("name", "").endswith("_all"):
            return e.get("key")
    return None


def c12_eval_world(world, root, stats, only=None):
    """only: list of injections [[key, kind], ...] (replay) or None (enumerate)."""
    out = []
    vs0, h0, p0 = run_and_judge("C12", world, root, stats, [O.check_C12])
    dig = [R.history_digest(h0)]
    for v in vs0:
        out.append((world, v, None))
    points = [e for e in h0["events"] if e["kind"] == "hook" and e["depth"] == 0]
    plans = []
    if only is not None:
        plans = [list(x) for x in only]
    else:
        rng = random.Random(world["seed"] ^ 0xC12)
        pts = points
        if len(pts) > 40:
            pts = rng.sample(pts, 40)
        for e in pts:
            for kind in ("exc", "assert"):
                plans.append([[e["key"], kind]])
        # sampled pairs
        for _ in range(min(6, len(points) // 2)):
            a, b = rng.sample(points, 2)
            plans.append([[a["key"], "exc"], [b["key"], rng.choice(["exc", "assert"])]])
    if h0.get("escaped") or h0.get("config_error"):
        plans = [] if only is None else plans
    for plan in plans:
        wk = world
        for key, kind in plan:
            wk = inject(wk, key, kind)
        vsk, hk, pk = run_and_judge("C12", wk, root, stats, [O.check_C12])
        dig.append(R.history_digest(hk))
        fired = [e for e in hk["events"] if e["kind"] == "hook" and e.get("raised") and e["depth"] == 0]
        if stats is not None:
            for e in fired:
                ek = "step" if "#" in e["eid"] else ("run" if not e["eid"] else
                                                    {"F": "feature", "R": "rule", "S": "scenario", "O": "scenario"}.get(
                                                        e["eid"].split(".")[-1][0], "scenario"))
                if e["eid"] and e["eid"].split(".")[-1][0] == "R" and ".E" in e["eid"]:
                    ek = "scenario"
                stats.probe("fault:%s@%s%s" % (e["name"], ek, "+stop" if world["cfg"].get("stop") else ""))
            if len(plan) > 1:
                stats.probe("pair-injection")
        for v in vsk:
            out.append((wk, v, {"inject": plan}))
        if len(plan) == 1 and len(fired) == 1 and not (pk.dead or p0.dead) \
                and _abort_point(h0) == _abort_point(hk):
            # (an interrupt that aborts R0 inside the faulted element does not happen in Rk,
            #  and vice versa: the remainder then legitimately differs)
            for v in O.differential_C12(world, h0, p0, hk, pk, fired[0]):
                out.append((world, v, {"inject": plan, "differential": True}))
    h = hashlib.sha1("".join(dig).encode("ascii")).hexdigest()
    return [(w, v, c) for (w, v, c) in out if v["prop"] == "C12"], h


def c12_evaluate(seed, hashseed, root, stats):
    world = W.gen_world(seed, profile=prof_C12)
    world["hashseed"] = hashseed
    return c12_eval_world(world, root, stats)


def c12_reproduce(world, root, ctx):
    if ctx and ctx.get("differential"):
        # world is the fault-free world; re-enumerate that single injection
        vs, _ = c12_eval_world(world, root, None, only=[ctx["inject"]])
    else:
        # world already carries the injected script
        vs, _ = c12_eval_world(world, root, None, only=[])
    return [v for (_w, v, _c) in vs]


# ---------------------------------------------------------------------------
def c03_probe(world, hist, pred, stats):
    def visit(node):
        kind = node["kind"]
        if kind == "scenario":
            ch = [s["status"] for s in node["steps"]]
        else:
            for it in node["items"]:
                visit(it)
            ch = [it["status"] for it in node["items"]]
        if ch:
            cell = "%s:%s=>%s" % (kind, "+".join(sorted(set(ch))), node["status"])
            stats.cells[cell] = stats.cells.get(cell, 0) + 1
    for f in hist["census"]:
        visit(f)
    if any(r.get("attempts", 1) > 1 for r in pred.scen.values()):
        stats.probe("scenario-retried")


def c02_probe(world, hist, pred, stats):
    for sid, rec in pred.scen.items():
        if rec.get("attempts", 1) > 1:
            stats.probe("scenario-retried")
        if rec.get("nonpass"):
            stats.probe("first-nonpass:%s@%d" % (rec["nonpass"][0], min(rec["nonpass"][1], 5)))
        if rec.get("skipped_by") == "step":
            stats.probe("step-skipped-its-scenario")
    if world["cfg"].get("dry_run"):
        stats.probe("dry-run-world")
    if world["cfg"].get("continue_after_failed"):
        stats.probe("continue-after-failed-step-world")
    if any(e["depth"] > 0 for e in hist["events"]):
        stats.probe("nested-execute_steps")


def c01_probe(world, hist, pred, stats):
    if pred.verdict is None:
        stats.probe("verdict-unknown(model-dead-or-invalid)")
    else:
        stats.probe("expected-%s" % ("fail" if pred.verdict else "pass"))
        for r in pred.verdict_reasons:
            stats.probe("reason:" + r)
    if pred.stopped:
        stats.probe("run-stopped-by---stop")
    if pred.aborted:
        stats.probe("run-aborted")


def sel_probe(world, hist, pred, stats):
    n_sel = sum(1 for r in pred.scen.values() if r.get("selected"))
    n_all = len(pred.scen)
    if n_all:
        stats.probe("worlds-with-some-deselected" if n_sel < n_all else "worlds-all-selected")
    if n_sel == 0 and n_all:
        stats.probe("worlds-nothing-selected")
    if world["cfg"].get("listfile"):
        stats.probe("listfile-worlds")
    if world["cfg"].get("names"):
        stats.probe("name-select-worlds")
    if world["cfg"].get("paths"):
        stats.probe("location-worlds")


def c13_probe(world, hist, pred, stats):
    n = sum(1 for e in hist["events"] if e["kind"] == "cleanup")
    if n:
        stats.probe("cleanup-calls", n)
    for e in hist["events"]:
        for d in e["did"]:
            if d[0] in ("set", "del", "cleanup", "cleanup-refused", "execute_steps"):
                stats.probe("op:%s%s" % (d[0], (":" + str(d[2])) if d[0] in ("del", "cleanup") else ""))


PROPS = {}


def _reg(prop, evaluate, reproduce, level, rule_text, worlds, extra_assumptions=(), **kw):
    PROPS[prop] = dict(evaluate=evaluate, reproduce=reproduce, level=level, rule_text=rule_text,
                       worlds=worlds, assumptions=COMMON_ASSUMPTIONS + list(extra_assumptions), **kw)


NONTRIVIAL = ("distinct = distinct run signatures (hash of the sequence of event kind/name/raised-class/depth, "
              "return code and selection/stop/dry-run/capture flags); non-trivial = a signature of a run in which "
              "at least one callback raised, or some element ended skipped/untested/undefined")

_e, _r = make_runsim("C01", [O.check_C01], prof_C01, c01_probe)
_reg("C01", _e, _r, "exploration",
     "worlds (feature trees x step outcomes x hooks x cleanups x tag/name/location selection x --stop/--dry-run/--wip) "
     "generated from the seed; verdict compared with the model's reading of the REALISED events; " + NONTRIVIAL,
     {"quick": 2200, "thorough": 40000})

_e, _r = make_runsim("C02", [O.check_C02], prof_C02, c02_probe)
_reg("C02", _e, _r, "exploration",
     "worlds with 0..2 background levels, plain scenarios and outline rows, outcome sequences over "
     "{pass, assert, exception, not-implemented, undefined, skip-scenario, KeyboardInterrupt, converter error}, "
     "@wip, dry-run, auto-retry histories; step-call log and every step status checked; " + NONTRIVIAL,
     {"quick": 2200, "thorough": 40000})

_e, _r = make_runsim("C03", [O.check_C03], prof_C03, c03_probe)
_reg("C03", _e, _r, "exploration",
     "statuses reached by real runs (incl. --stop/abort remainders, hook errors, dry-run, de-selection, auto-retry); "
     "every element's status checked bottom-up against the ACTUAL statuses of its children; cells_reached lists the "
     "(container kind : child status set => status) cells seen; " + NONTRIVIAL,
     {"quick": 2200, "thorough": 40000}, startup=O.check_status_table)

_e, _r = make_runsim("C09", [O.check_C09], prof_C09, sel_probe)
_reg("C09", _e, _r, "exploration",
     "worlds with tags on every level and a tag expression rendered from the model's own AST (v2, v1 for CNF, "
     "auto-detect), faults active elsewhere; executed set, statuses and container roll-up vs model; " + NONTRIVIAL,
     {"quick": 2200, "thorough": 40000})

_e, _r = make_runsim("C10", [O.check_C10], prof_C10, sel_probe)
_reg("C10", _e, _r, "exploration",
     "worlds with file:LINE locations (0 .. past EOF, 1-3 per file, several files, optional @listfile) and -n patterns; "
     "executed set and statuses vs the model's line->entity map; " + NONTRIVIAL,
     {"quick": 2200, "thorough": 40000})

_reg("C12", c12_evaluate, c12_reproduce, "fault_enumeration",
     "per sampled world: fault-free run R0, then EVERY hook invocation of R0 (capped at 40, sampled above) raising "
     "Exception and AssertionError one at a time, plus sampled pairs; each run is checked by the lock-step acceptor "
     "(nesting, pairing, containment) and differentially against R0; " + NONTRIVIAL,
     {"quick": 30, "thorough": 600},
     coverage_extra={"enumeration": "complete over (hook invocation x {Exception, AssertionError}) for each sampled world with <= 40 invocations"})

_e, _r = make_runsim("C13", [O.check_C13], prof_C13, c13_probe)
_reg("C13", _e, _r, "exploration",
     "worlds whose hooks and steps at every level set / delete / probe context attributes and register cleanups "
     "(plain, with args, layer=, generator and plain fixtures, failing setup), some raising; every probe compared with a "
     "dict-stack model, every cleanup with the LIFO exactly-once model; " + NONTRIVIAL,
     {"quick": 2200, "thorough": 40000})
