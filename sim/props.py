# -*- coding: utf-8 -*-
"""Per-property check specifications (which engine, which profile, which oracle)."""
from __future__ import annotations

import copy
import os
import hashlib
import random

from . import world as W
from . import runtime as R
from . import model as M
from . import oracles as O

COMMON_ASSUMPTIONS = [
    "behave is imported from /repo's working tree and run in-process through behave.configuration.Configuration + behave.__main__.run_behave",
    "user code is generated shims delegating to the simulator runtime; clock, hostname, terminal size and the two TTY objects are simulator-owned",
    "the reference model (sim/model.py, ~700 lines) is trusted; where the property is silent it is permissive (DESIGN.md 2.3)",
    "sampling, not enumeration, of worlds: a clean batch is evidence, not proof",
]


def _record_sample(stats, world, hist, extra=None):
    if len(stats.samples) < 3 and (len(hist["events"]) > 3 or not stats.samples):
        from .driver import sample_of
        stats.samples.append(sample_of(world, hist, extra))


def run_and_judge(prop, world, root, stats, oracle_fns):
    hist = R.run_world(world, root)
    pred = M.Acceptor(world, hist).run()
    if stats is not None:
        stats.note_run(world, hist)
        _record_sample(stats, world, hist)
    vs = []
    for fn in oracle_fns:
        vs.extend(fn(world, hist, pred))
    esc = O.escaped_violation(hist)
    if esc is not None:
        if esc["prop"] == prop and not any(v["key"] == esc["key"] for v in vs):
            vs.append(esc)
        elif esc["prop"] == "HARNESS":
            raise RuntimeError("exception escaped outside behave: %r" % (esc,))
        elif stats is not None:
            stats.probe("escaped-owned-by-" + esc["prop"])
    return vs, hist, pred


def child_cross_check(prop, world, hist, root, stats):
    """Run the same world as a real child process and compare (sampled)."""
    from . import childproc as CP
    child = CP.run_child(world, root)
    out = []
    for (p, rule, key, detail) in CP.compare(world, hist, child):
        if p == "HARNESS":
            raise RuntimeError("child-process cross-check: %s %s" % (key, detail))
        if p == prop:
            out.append(O.V(p, rule, key, **detail))
    if stats is not None:
        stats.probe("child-process-cross-checks")
    return out


def make_runsim(prop, oracle_fns, profile, extra_probe=None, child_every=0):
    def eval_world(world, root, stats):
        vs, hist, pred = run_and_judge(prop, world, root, stats, oracle_fns)
        if extra_probe and stats is not None:
            extra_probe(world, hist, pred, stats)
        if child_every and (world["seed"] % child_every == 0 or world.get("child_check")):
            cv = child_cross_check(prop, world, hist, root, stats)
            if cv:
                world = dict(world, child_check=True)
                vs = list(vs) + cv
        return [(world, v, None) for v in vs if v["prop"] == prop], R.history_digest(hist)

    def evaluate(seed, hashseed, root, stats):
        world = W.gen_world(seed, profile=profile)
        world["hashseed"] = hashseed
        return eval_world(world, root, stats)

    def reproduce(world, root, ctx):
        vs, _d = eval_world(world, root, None)
        return [v for (_w, v, _c) in vs]
    return evaluate, reproduce


# ---------------------------------------------------------------------------
# profiles (swarm bias per property)
# ---------------------------------------------------------------------------
def prof_C01(d, rng):
    if not d["outcomes"] and rng.random() < 0.7:
        d["outcomes"] = rng.sample(["assert", "exc", "notimpl", "kbi", "skip"], rng.randint(1, 3))
        d["p_fail"] = rng.choice([0.05, 0.15, 0.3])
    d["junit"] = d["junit"] and rng.random() < 0.3
    d["stop"] = rng.random() < 0.3
    d["dry_run"] = rng.random() < 0.12
    d["wip"] = rng.random() < 0.08
    d["autoretry"] = False
    if rng.random() < 0.1:
        # "... or is pending outside @wip": not-implemented steps as the only fault, @wip frequent
        d["outcomes"] = ["notimpl"]
        d["p_fail"] = rng.choice([0.15, 0.3])
        d["p_undefined"] = 0.0
        d["p_hook_fail"] = 0.0
        d["cleanups"] = False
        d["nested"] = False
        d["async_steps"] = False
        d["wip_bias"] = True
        d["dry_run"] = False
        return
    if rng.random() < 0.3:
        # a single raising hook or cleanup in an otherwise passing run
        d["outcomes"] = []
        d["p_fail"] = 0.0
        d["p_undefined"] = 0.0
        d["hooks"] = [h for h in W.HOOK_NAMES if rng.random() < 0.7]
        d["p_hook_fail"] = rng.choice([0.0, 0.03])
        d["hook_interrupts"] = rng.random() < 0.3     # "... or the run is aborted"
        d["cleanups"] = True
        d["p_cleanup_fail"] = rng.choice([0.0, 0.1])


def prof_C02(d, rng):
    if rng.random() < 0.8:
        d["outcomes"] = rng.sample(["assert", "exc", "notimpl", "kbi", "skip"], rng.randint(1, 4))
        d["p_fail"] = rng.choice([0.1, 0.2, 0.35])
    d["p_undefined"] = rng.choice([0.0, 0.05, 0.15, 0.25])
    d["steplib"] = "rich" if rng.random() < 0.5 else "small"
    d["autoretry"] = rng.random() < 0.15
    if d["autoretry"]:
        d["outcomes"] = [o for o in d["outcomes"] if o not in ("kbi", "skip")]
        d["hook_skips"] = False
        if "before_feature" not in d["hooks"]:
            d["hooks"].append("before_feature")
    d["continue_after_failed"] = rng.random() < 0.08
    d["nested"] = rng.random() < 0.25
    d["async_steps"] = rng.random() < 0.25
    d["opts"] = {"p_background": rng.choice([0.3, 0.6, 0.9])}


def prof_C03(d, rng):
    prof_C02(d, rng)
    d["status_reads"] = rng.random() < 0.3
    d["midrun_skips"] = rng.random() < 0.15
    d["stop"] = rng.random() < 0.35
    d["p_hook_fail"] = rng.choice([0.0, 0.05, 0.15])
    d["tagsel"] = rng.random() < 0.5
    d["dry_run"] = rng.random() < 0.1
    d["hook_skips"] = rng.random() < 0.2


def prof_C09(d, rng):
    d["tagsel"] = True
    d["namesel"] = False
    d["locsel"] = False
    d["autoretry"] = False
    d["p_hook_fail"] = rng.choice([0.0, 0.0, 0.05])
    if not d["hooks"] and rng.random() < 0.7:
        d["hooks"] = [h for h in W.HOOK_NAMES if rng.random() < 0.6]


def prof_C10(d, rng):
    d["tagsel"] = rng.random() < 0.2
    r = rng.random()
    d["namesel"] = r < 0.4
    d["locsel"] = r >= 0.3
    d["autoretry"] = False
    if not d["hooks"] and rng.random() < 0.7:
        d["hooks"] = [h for h in W.HOOK_NAMES if rng.random() < 0.6]
    d["size"] = rng.choice(["small", "medium", "medium"])
    if rng.random() < 0.15:
        # an outline without any row (or only empty blocks): a location addressing it selects nothing
        d["opts"] = {"allow_empty_outline": True, "p_outline": 0.5}


def prof_C12(d, rng):
    hooks = [h for h in W.HOOK_NAMES if rng.random() < 0.7]
    if not hooks:
        hooks = ["before_scenario", "after_scenario"]
    d["hooks"] = hooks
    d["p_hook_fail"] = 0.0
    d["autoretry"] = False
    d["size"] = rng.choice(["tiny", "small", "small", "medium"])
    d["stop"] = rng.random() < 0.25
    d["dry_run"] = rng.random() < 0.05
    d["hook_skips"] = rng.random() < 0.1
    d["junit"] = False
    d["p_cleanup_fail"] = 0.0


def prof_C13(d, rng):
    d["ctx"] = True
    d["cleanups"] = True
    d["p_cleanup_fail"] = rng.choice([0.0, 0.15, 0.3])
    d["nested"] = rng.random() < 0.4
    d["autoretry"] = False
    if len(d["hooks"]) < 3:
        d["hooks"] = [h for h in W.HOOK_NAMES if rng.random() < 0.7]
    d["junit"] = False
    d["hook_interrupts"] = rng.random() < 0.2
    if d["hook_interrupts"] and not d["p_hook_fail"]:
        d["p_hook_fail"] = 0.05


# ---------------------------------------------------------------------------
# C12: fault enumeration over every hook invocation of the fault-free run
# ---------------------------------------------------------------------------
def inject(world, key, kind):
    w = dict(world)
    script = dict(world["script"])
    ent = dict(script.get(key) or {"acts": [], "out": {"kind": "ok"}})
    if kind == "assert":
        ent["out"] = {"kind": "assert", "msg": "injected assert"}
    elif kind == "cfg":
        # an exception class behave itself handles specially elsewhere: still "an exception in a hook"
        ent["out"] = {"kind": "exc", "cls": "behave.exception:ConfigError", "msg": "injected config error"}
    else:
        ent["out"] = {"kind": "exc", "cls": "Exception", "msg": "injected exception"}
    script[key] = ent
    w["script"] = script
    return w


def _abort_point(hist):
    for e in hist["events"]:
        if e.get("raised") == "KeyboardInterrupt":
            return e.get("key")
        if e["kind"] == "hook" and e.get("raised") and e.get("name", "").endswith("_all"):
            return e.get("key")
    return None


def inject_cleanup_fault(world, key, act_index, kind="Exception"):
    w = dict(world)
    script = dict(world["script"])
    ent = copy.deepcopy(script[key])
    ent["acts"][act_index]["raises"] = kind
    script[key] = ent
    w["script"] = script
    return w


def inject_step_outcome(world, key, kind):
    w = dict(world)
    script = dict(world["script"])
    ent = copy.deepcopy(script.get(key) or {"acts": [], "out": {"kind": "ok"}})
    ent["out"] = {"assert": {"kind": "assert", "msg": "injected"}, "exc": {"kind": "exc", "cls": "RuntimeError", "msg": "injected"},
                  "notimpl": {"kind": "notimpl", "msg": "injected"}, "kbi": {"kind": "kbi"}, "skip": {"kind": "skip"}}[kind]
    script[key] = ent
    w["script"] = script
    return w


def enumerate_step_faults(prop, world, root, stats, oracle_fns, cap=12, post=None):
    """Every step call-site of the all-pass variant of this world x every non-pass outcome kind:
    the first non-pass is placed at EVERY position (per sampled world)."""
    out = []
    w0 = dict(world)
    sc = {}
    for k, ent in world["script"].items():
        if k.startswith("step|") and ent["out"]["kind"] != "ok":
            ent = dict(ent)
            ent["out"] = {"kind": "ok"}
        sc[k] = ent
    w0["script"] = sc
    w0["autoretry"] = {}
    h0 = R.run_world(w0, root, post=post)
    if h0.get("escaped") or h0.get("config_error"):
        return out, R.history_digest(h0)
    if stats is not None:
        stats.note_run(w0, h0)
    sites = [e["key"] for e in h0["events"] if e["kind"] == "step" and e["depth"] == 0]
    seen = []
    for k in sites:
        if k not in seen:
            seen.append(k)
    if len(seen) > cap:
        seen = random.Random(world["seed"] ^ 0x57E9).sample(seen, cap)
    dig = R.history_digest(h0)
    for key in seen:
        for kind in ("assert", "exc", "notimpl", "kbi", "skip"):
            wk = inject_step_outcome(w0, key, kind)
            hk = R.run_world(wk, root, post=post)
            pk = M.Acceptor(wk, hk).run()
            if stats is not None:
                stats.note_run(wk, hk)
                stats.probe("enumerated-step-outcomes")
            dig += R.history_digest(hk)
            for fn in oracle_fns:
                for v in fn(wk, hk, pk):
                    if v["prop"] == prop:
                        out.append((wk, v, None))
            esc = O.escaped_violation(hk)
            if esc is not None and esc["prop"] == prop:
                out.append((wk, esc, None))
    return out, dig


def c12_eval_world(world, root, stats, only=None):
    """only: list of injections [[key, kind], ...] (replay) or None (enumerate)."""
    out = []
    vs0, h0, p0 = run_and_judge("C12", world, root, stats, [O.check_C12])
    dig = [R.history_digest(h0)]
    for v in vs0:
        out.append((world, v, None))
    points = [e for e in h0["events"] if e["kind"] == "hook" and e["depth"] == 0]
    plans = []
    if only is not None:
        plans = [list(x) for x in only]
    else:
        rng = random.Random(world["seed"] ^ 0xC12)
        pts = points
        cap = 120 if os.environ.get("VERIF_TIER") == "thorough" else 40
        if len(pts) > cap:
            pts = rng.sample(pts, cap)
        for n_, e in enumerate(pts):
            for kind in ("exc", "assert"):
                plans.append([[e["key"], kind]])
            if n_ % 6 == world["seed"] % 6:
                plans.append([[e["key"], "cfg"]])
        # sampled pairs
        for _ in range(min(20 if os.environ.get("VERIF_TIER") == "thorough" else 6, len(points) // 2)):
            a, b = rng.sample(points, 2)
            plans.append([[a["key"], "exc"], [b["key"], rng.choice(["exc", "assert"])]])
    if h0.get("escaped") or h0.get("config_error"):
        plans = [] if only is None else plans
    for plan in plans:
        wk = world
        for key, kind in plan:
            wk = inject(wk, key, kind)
        vsk, hk, pk = run_and_judge("C12", wk, root, stats, [O.check_C12])
        dig.append(R.history_digest(hk))
        fired = [e for e in hk["events"] if e["kind"] == "hook" and e.get("raised") and e["depth"] == 0]
        if stats is not None:
            for e in fired:
                ek = "step" if "#" in e["eid"] else ("run" if not e["eid"] else
                                                    {"F": "feature", "R": "rule", "S": "scenario", "O": "scenario"}.get(
                                                        e["eid"].split(".")[-1][0], "scenario"))
                if e["eid"] and e["eid"].split(".")[-1][0] == "R" and ".E" in e["eid"]:
                    ek = "scenario"
                stats.probe("fault:%s@%s%s" % (e["name"], ek, "+stop" if world["cfg"].get("stop") else ""))
            if len(plan) > 1:
                stats.probe("pair-injection")
        for v in vsk:
            out.append((wk, v, {"inject": plan}))
        if len(plan) == 1 and len(fired) == 1 and not (pk.dead or p0.dead) \
                and _abort_point(h0) == _abort_point(hk):
            # (an interrupt that aborts R0 inside the faulted element does not happen in Rk,
            #  and vice versa: the remainder then legitimately differs)
            for v in O.differential_C12(world, h0, p0, hk, pk, fired[0]):
                out.append((world, v, {"inject": plan, "differential": True}))
    h = hashlib.sha1("".join(dig).encode("ascii")).hexdigest()
    return [(w, v, c) for (w, v, c) in out if v["prop"] == "C12"], h


def c12_evaluate(seed, hashseed, root, stats):
    world = W.gen_world(seed, profile=prof_C12)
    world["hashseed"] = hashseed
    out, dig = c12_eval_world(world, root, stats)
    # companion worlds: the scripted run only (no enumeration) through the same acceptor - the
    # order / pairing / no-hooks-for-skipped rules need breadth of trees and selections more than
    # depth of injection
    for k in range(16 if os.environ.get("VERIF_TIER") == "thorough" else 12):
        w2 = W.gen_world(1500000000 + (seed * 37 + k) % 400000000, profile=prof_C12)
        w2["hashseed"] = hashseed
        vs, h2, _p2 = run_and_judge("C12", w2, root, stats, [O.check_C12])
        dig = hashlib.sha1((dig + R.history_digest(h2)).encode("ascii")).hexdigest()
        for v in vs:
            if v["prop"] == "C12":
                out.append((w2, v, None))
        if stats is not None:
            stats.probe("companion-worlds")
    return out, dig


def c12_reproduce(world, root, ctx):
    if ctx and ctx.get("differential"):
        # world is the fault-free world; re-enumerate that single injection
        vs, _ = c12_eval_world(world, root, None, only=[ctx["inject"]])
    else:
        # world already carries the injected script
        vs, _ = c12_eval_world(world, root, None, only=[])
    return [v for (_w, v, _c) in vs]


# ---------------------------------------------------------------------------
def c03_probe(world, hist, pred, stats):
    def visit(node):
        kind = node["kind"]
        if kind == "scenario":
            ch = [s["status"] for s in node["steps"]]
        else:
            for it in node["items"]:
                visit(it)
            ch = [it["status"] for it in node["items"]]
        if ch:
            cell = "%s:%s=>%s" % (kind, "+".join(sorted(set(ch))), node["status"])
            stats.cells[cell] = stats.cells.get(cell, 0) + 1
    for f in hist["census"]:
        visit(f)
    if any(r.get("attempts", 1) > 1 for r in pred.scen.values()):
        stats.probe("scenario-retried")


def c02_probe(world, hist, pred, stats):
    for sid, rec in pred.scen.items():
        if rec.get("attempts", 1) > 1:
            stats.probe("scenario-retried")
        if rec.get("nonpass"):
            stats.probe("first-nonpass:%s@%d" % (rec["nonpass"][0], min(rec["nonpass"][1], 5)))
        if rec.get("skipped_by") == "step":
            stats.probe("step-skipped-its-scenario")
    if world["cfg"].get("dry_run"):
        stats.probe("dry-run-world")
    if world["cfg"].get("continue_after_failed"):
        stats.probe("continue-after-failed-step-world")
    if any(e["depth"] > 0 for e in hist["events"]):
        stats.probe("nested-execute_steps")


def c01_probe(world, hist, pred, stats):
    if pred.verdict is None:
        stats.probe("verdict-unknown(model-dead-or-invalid)")
    else:
        stats.probe("expected-%s" % ("fail" if pred.verdict else "pass"))
        for r in pred.verdict_reasons:
            stats.probe("reason:" + r)
    if pred.stopped:
        stats.probe("run-stopped-by---stop")
    if pred.aborted:
        stats.probe("run-aborted")


def sel_probe(world, hist, pred, stats):
    n_sel = sum(1 for r in pred.scen.values() if r.get("selected"))
    n_all = len(pred.scen)
    if n_all:
        stats.probe("worlds-with-some-deselected" if n_sel < n_all else "worlds-all-selected")
    if n_sel == 0 and n_all:
        stats.probe("worlds-nothing-selected")
    if world["cfg"].get("listfile"):
        stats.probe("listfile-worlds")
    if world["cfg"].get("names"):
        stats.probe("name-select-worlds")
    if world["cfg"].get("paths"):
        stats.probe("location-worlds")


def c13_probe(world, hist, pred, stats):
    n = sum(1 for e in hist["events"] if e["kind"] == "cleanup")
    if n:
        stats.probe("cleanup-calls", n)
    for e in hist["events"]:
        for d in e["did"]:
            if d[0] in ("set", "del", "cleanup", "cleanup-refused", "execute_steps"):
                stats.probe("op:%s%s" % (d[0], (":" + str(d[2])) if d[0] in ("del", "cleanup") else ""))


PROPS = {}


def _reg(prop, evaluate, reproduce, level, rule_text, worlds, extra_assumptions=(), **kw):
    PROPS[prop] = dict(evaluate=evaluate, reproduce=reproduce, level=level, rule_text=rule_text,
                       worlds=worlds, assumptions=COMMON_ASSUMPTIONS + list(extra_assumptions), **kw)


NONTRIVIAL = ("distinct = distinct run signatures (hash of the sequence of event kind/name/raised-class/depth, "
              "return code and selection/stop/dry-run/capture flags); non-trivial = a signature of a run in which "
              "at least one callback raised, or some element ended skipped/untested/undefined")

_e01, _r = make_runsim("C01", [O.check_C01], prof_C01, c01_probe, child_every=211)


def c01_evaluate(seed, hashseed, root, stats):
    """Sampled worlds + (every 8th seed) enumeration of 'any single raising hook or cleanup':
    every hook invocation / registered cleanup of an otherwise unchanged run raises once."""
    out, dig = _e01(seed, hashseed, root, stats)
    if (seed // 16) % 8 != 0:      # (index within the worker: balanced over the 16 workers)
        return out, dig
    world = W.gen_world(seed, profile=prof_C01)
    world["hashseed"] = hashseed
    if world["cfg"].get("dry_run") or not world["hooks"]:
        return out, dig
    vs0, h0, p0 = run_and_judge("C01", world, root, stats, [O.check_C01])
    if h0.get("escaped") or h0.get("config_error"):
        return out, dig
    rng = random.Random(seed ^ 0xC01)
    points = [e for e in h0["events"] if e["kind"] == "hook" and e["depth"] == 0 and not e.get("raised")]
    if len(points) > 12:
        points = rng.sample(points, 12)
    for e in points:
        wk = inject(world, e["key"], rng.choice(["exc", "assert"]))
        vsk, hk, pk = run_and_judge("C01", wk, root, stats, [O.check_C01])
        stats.probe("enumerated-single-hook-faults")
        dig += R.history_digest(hk)
        out = list(out) + [(wk, v, None) for v in vsk if v["prop"] == "C01"]
    sites = []
    for cid, info in sorted(h0["cleanups"].items()):
        if info.get("registered") and info.get("site") and info["site"][0] in world["script"] \
                and info["kind"] in ("plain", "args", "layer", "fixture") and not info.get("raises") \
                and not info.get("setup_raises") and info["site"] not in sites:
            sites.append(info["site"])
    for key, ai in sites[:8]:
        wk = inject_cleanup_fault(world, key, ai)
        vsk, hk, pk = run_and_judge("C01", wk, root, stats, [O.check_C01])
        stats.probe("enumerated-single-cleanup-faults")
        dig += R.history_digest(hk)
        out = list(out) + [(wk, v, None) for v in vsk if v["prop"] == "C01"]
    return out, hashlib.sha1(dig.encode("ascii")).hexdigest()


_e = c01_evaluate
_reg("C01", _e, _r, "exploration",
     "worlds (feature trees x step outcomes x hooks x cleanups x tag/name/location selection x --stop/--dry-run/--wip) "
     "generated from the seed; verdict compared with the model's reading of the REALISED events; " + NONTRIVIAL,
     {"quick": 1500, "thorough": 40000})

_e02, _r = make_runsim("C02", [O.check_C02], prof_C02, c02_probe)


def c02_evaluate(seed, hashseed, root, stats):
    out, dig = _e02(seed, hashseed, root, stats)
    if (seed // 16) % 40 == 0:
        world = W.gen_world(seed, profile=prof_C02)
        world["hashseed"] = hashseed
        o2, d2 = enumerate_step_faults("C02", world, root, stats, [O.check_C02])
        out = list(out) + o2
        dig = hashlib.sha1((dig + d2).encode("ascii")).hexdigest()
    return out, dig


_e = c02_evaluate
_reg("C02", _e, _r, "exploration",
     "worlds with 0..2 background levels, plain scenarios and outline rows, outcome sequences over "
     "{pass, assert, exception, not-implemented, undefined, skip-scenario, KeyboardInterrupt, converter error}, "
     "@wip, dry-run, auto-retry histories, async steps under virtual time; for every 40th world the first non-pass is "
     "placed at EVERY step call-site x {assert, exception, not-implemented, interrupt, skip}; step-call log and every "
     "step status checked; " + NONTRIVIAL,
     {"quick": 1400, "thorough": 30000})

_e, _r = make_runsim("C03", [O.check_C03], prof_C03, c03_probe)
_reg("C03", _e, _r, "exploration",
     "statuses reached by real runs (incl. --stop/abort remainders, hook errors, dry-run, de-selection, auto-retry); "
     "every element's status checked bottom-up against the ACTUAL statuses of its children; cells_reached lists the "
     "(container kind : child status set => status) cells seen; " + NONTRIVIAL,
     {"quick": 2200, "thorough": 40000}, startup=O.check_status_table)

_e, _r = make_runsim("C09", [O.check_C09], prof_C09, sel_probe)
_reg("C09", _e, _r, "exploration",
     "worlds with tags on every level and a tag expression rendered from the model's own AST (v2, v1 for CNF, "
     "auto-detect), faults active elsewhere; executed set, statuses and container roll-up vs model; " + NONTRIVIAL,
     {"quick": 2200, "thorough": 40000})

_e, _r = make_runsim("C10", [O.check_C10], prof_C10, sel_probe)
_reg("C10", _e, _r, "exploration",
     "worlds with file:LINE locations (0 .. past EOF, 1-3 per file, several files, optional @listfile) and -n patterns; "
     "executed set and statuses vs the model's line->entity map; " + NONTRIVIAL,
     {"quick": 2200, "thorough": 40000})

_reg("C12", c12_evaluate, c12_reproduce, "fault_enumeration",
     "per sampled world: fault-free run R0, then EVERY hook invocation of R0 (capped at 40, sampled above) raising "
     "Exception and AssertionError one at a time, plus sampled pairs; each run is checked by the lock-step acceptor "
     "(nesting, pairing, containment) and differentially against R0; " + NONTRIVIAL,
     {"quick": 30, "thorough": 600},
     coverage_extra={"enumeration": "complete over (hook invocation x {Exception, AssertionError}) for each sampled world with <= 40 invocations"})

from . import contextsim as CS     # noqa: E402
_e13, _r13 = make_runsim("C13", [O.check_C13], prof_C13, c13_probe)


def c13_enumerate_cleanup_faults(world, root, stats):
    """Every cleanup registered in the fault-free run raises, one at a time (plus one pair)."""
    out = []
    w0 = dict(world)
    sc = {}
    for k, ent in world["script"].items():
        if any(a.get("raises") for a in ent["acts"] if a["a"] == "cleanup"):
            ent = copy.deepcopy(ent)
            for a in ent["acts"]:
                a.pop("raises", None)
        sc[k] = ent
    w0["script"] = sc
    vs0, h0, p0 = run_and_judge("C13", w0, root, stats, [O.check_C13])
    out += [(w0, v, None) for v in vs0 if v["prop"] == "C13"]
    sites = []
    for cid, info in sorted(h0["cleanups"].items()):
        if info.get("registered") and not info.get("no_cleanup") and not info.get("setup_raises") \
                and info.get("site") and info["site"][0] in w0["script"] and info["kind"] in ("plain", "args", "layer", "fixture"):
            if info["site"] not in sites:
                sites.append(info["site"])
    if len(sites) > 14:
        sites = random.Random(world["seed"]).sample(sites, 14)
    plans = [[s_] for s_ in sites]
    if len(sites) >= 2:
        plans.append(sites[:2])
    dig = R.history_digest(h0)
    for plan in plans:
        wk = w0
        for key, ai in plan:
            wk = inject_cleanup_fault(wk, key, ai, "AssertionError" if (ai + len(key)) % 3 == 0 else "Exception")
        vsk, hk, pk = run_and_judge("C13", wk, root, stats, [O.check_C13])
        dig += R.history_digest(hk)
        fired = sum(1 for e in hk["events"] if e["kind"] == "cleanup" and e.get("raised"))
        if stats is not None:
            stats.probe("enumerated-cleanup-faults", 1)
            stats.probe("enumerated-cleanup-faults-fired", 1 if fired else 0)
        out += [(wk, v, None) for v in vsk if v["prop"] == "C13"]
    return out, dig


def c13_evaluate(seed, hashseed, root, stats):
    out, d1 = _e13(seed, hashseed, root, stats)
    if (seed // 16) % 4 == 0:
        world = W.gen_world(seed, profile=prof_C13)
        world["hashseed"] = hashseed
        o3, d3 = c13_enumerate_cleanup_faults(world, root, stats)
        out = list(out) + o3
        d1 = d1 + d3
    out2, d2 = CS.evaluate(seed, hashseed, root, stats)
    stats.probe("context-machine-histories")
    return list(out) + list(out2), hashlib.sha1((d1 + d2).encode("ascii")).hexdigest()


def c13_reproduce(world, root, ctx):
    if world.get("context_case"):
        return CS.reproduce(world, root, ctx)
    return _r13(world, root, ctx)


def c13_minimise(world, violation, spec, root, ctx, budget=300):
    if world.get("context_case"):
        return CS.minimise(world, violation, spec, root, ctx, budget)
    from . import minimise as MIN
    return MIN.ddmin(world, violation, spec, root, ctx, budget)


_e, _r = c13_evaluate, c13_reproduce
_reg("C13", _e, _r, "exploration",
     "worlds whose hooks and steps at every level set / delete / probe context attributes and register cleanups "
     "(plain, with args, layer=, generator and plain fixtures, failing setup), some raising; every probe compared with a "
     "dict-stack model, every cleanup with the LIFO exactly-once model; plus the context history machine: a real "
     "Context driven through seeded histories of push / pop / set / get / delete / contains / set-root / use_or_assign / "
     "use_or_create / add_cleanup (plain, args, layer=, same function twice) / use_fixture (generator, plain, failing "
     "setup, composite, nested) in user and behave mode, with ALL subsets of raising cleanups for histories with <= 4 "
     "cleanups (sampled beyond), every name read back after every operation; " + NONTRIVIAL,
     {"quick": 800, "thorough": 30000}, minimise=c13_minimise)


# ---------------------------------------------------------------------------
# artefact properties C14..C18
# ---------------------------------------------------------------------------
from . import artifacts as A     # noqa: E402


def make_runsim_post(prop, oracle_fns, profile, post, extra_probe=None, child_every=0):
    def eval_world(world, root, stats):
        hist = R.run_world(world, root, post=post)
        pred = M.Acceptor(world, hist).run()
        child_vs = []
        if child_every and (world["seed"] % child_every == 0 or world.get("child_check")):
            child_vs = child_cross_check(prop, world, hist, root, stats)
            if child_vs:
                world = dict(world, child_check=True)
        if stats is not None:
            stats.note_run(world, hist)
            _record_sample(stats, world, hist)
            if extra_probe:
                extra_probe(world, hist, pred, stats)
        vs = list(child_vs)
        for fn in oracle_fns:
            vs.extend(fn(world, hist, pred))
        esc = O.escaped_violation(hist)
        if esc is not None:
            if esc["prop"] == prop:
                vs.append(esc)
            elif esc["prop"] == "HARNESS":
                raise RuntimeError("exception escaped outside behave: %r" % (esc,))
            elif stats is not None:
                stats.probe("escaped-owned-by-" + esc["prop"])
        return [(world, v, None) for v in vs if v["prop"] == prop], R.history_digest(hist)

    def evaluate(seed, hashseed, root, stats):
        world = W.gen_world(seed, profile=profile)
        world["hashseed"] = hashseed
        return eval_world(world, root, stats)

    def reproduce(world, root, ctx):
        vs, _d = eval_world(world, root, None)
        return [v for (_w, v, _c) in vs]
    return evaluate, reproduce


def prof_C14(d, rng):
    prof_C03(d, rng)
    d["p_summary_format"] = 0.6
    d["junit"] = rng.random() < 0.1
    d["opts"] = dict(d.get("opts") or {}, allow_no_examples=True)
    d["hook_interrupts"] = rng.random() < 0.2


def prof_C15(d, rng):
    prof_C03(d, rng)
    d["midrun_skips"] = False   # (reports written while the run proceeds cannot show a later feature.skip())
    d["rec"] = True
    d["junit"] = False
    d["autoretry"] = False
    d["continue_after_failed"] = False
    d["opts"] = {"p_background": rng.choice([0.3, 0.6, 0.9]), "p_rule": rng.choice([0.0, 0.3, 0.5]),
                 "p_doc": 0.2, "p_table": 0.2}
    d["fmt_bias"] = ["json", "json.pretty", "plain", "pretty", "progress", "progress2", "progress3"]


def prof_C16(d, rng):
    prof_C03(d, rng)
    d["junit"] = True
    d["hostile"] = rng.random() < 0.7
    d["prints"] = True
    d["cleanups"] = rng.random() < 0.4
    d["p_cleanup_fail"] = rng.choice([0.0, 0.2])
    d["autoretry"] = False
    d["hook_interrupts"] = rng.random() < 0.2
    d["hostile_undefined"] = d["hostile"] and rng.random() < 0.5
    if d["hostile_undefined"] and d.get("p_undefined", 0) == 0:
        d["p_undefined"] = 0.1
    d["hostile_ctrl_names"] = d["hostile"] and rng.random() < 0.5      # C0/C1 controls, ESC, U+FFFE in feature / scenario names


def prof_C17(d, rng):
    prof_C03(d, rng)
    d["rerun"] = True
    d["dry_run"] = rng.random() < 0.08       # (first run only; the second run is always a real one)
    d["autoretry"] = False
    d["locsel"] = False
    d["junit"] = False
    d["size"] = rng.choice(["small", "medium", "medium"])
    d["allow_wip_tag"] = True


def prof_C18(d, rng):
    prof_C02(d, rng)
    d["prints"] = True
    d["junit"] = rng.random() < 0.1
    d["dry_run"] = False
    d["autoretry"] = False
    d["hostile"] = False
    if rng.random() < 0.6 and not d["hooks"]:
        d["hooks"] = [h for h in W.HOOK_NAMES if rng.random() < 0.6]
    d["p_hook_fail"] = rng.choice([0.0, 0.05, 0.1])
    d["hook_interrupts"] = rng.random() < 0.3
    d["nested"] = rng.random() < 0.3
    d["log_level_changes"] = rng.random() < 0.3
    d["pre_handler"] = rng.random() < 0.3
    d["p_clear_handlers"] = 0.3 if d["pre_handler"] else 0.1
    d["p_log_burst"] = rng.choice([0.0, 0.0, 0.0, 0.05])
    d["p_hijack"] = rng.choice([0.0, 0.0, 0.03])


def c14_probe(world, hist, pred, stats):
    fmt = world["cfg"]["userdata"].get("behave.reporter.summary.output_format", "default(v1)")
    stats.probe("summary-format:" + fmt)
    for kind, cnt in A.census_counts(hist).items():
        for st in cnt:
            stats.cells["%s:%s" % (kind, st)] = stats.cells.get("%s:%s" % (kind, st), 0) + cnt[st]


def c15_probe(world, hist, pred, stats):
    for name, outp in world["cfg"]["formatters"]:
        stats.probe("formatter:" + name + ("" if outp else "(stdout)"))
    if any(f.get("has_background") for f in hist["census"]):
        stats.probe("feature-background")
    for f in world["features"]:
        for it in f["items"]:
            if it["kind"] == "rule" and it.get("background"):
                stats.probe("rule-background")


def c16_probe(world, hist, pred, stats):
    n = sum(1 for k in hist["artifacts"] if k.startswith("reports/"))
    stats.probe("xml-files", n)
    if world["dims"].get("hostile"):
        stats.probe("hostile-world")
    for sid, rec in pred.scen.items():
        if rec.get("cleanup_failed"):
            stats.probe("scenario-cleanup-error")
        if rec.get("hook_failed"):
            stats.probe("scenario-hook-error")


def c18_probe(world, hist, pred, stats):
    cap = world["cfg"]["capture"]
    stats.probe("capture:%d%d%d" % (cap["stdout"], cap["stderr"], cap["log"]))
    stats.probe("markers", len(hist["markers"]))
    if any(e.get("raised") == "KeyboardInterrupt" for e in hist["events"]):
        stats.probe("interrupt-in-step")
    if any(e["kind"] == "hook" and e["name"].endswith("_step") and e.get("raised") for e in hist["events"]):
        stats.probe("step-hook-error")


_e, _r = make_runsim_post("C14", [A.check_C14], prof_C14, A.post_C14, c14_probe)
_reg("C14", _e, _r, "exploration",
     "runs of C01-C03 (untested remainders, hook errors, dry-run, rules, outline rows, background copies); the text "
     "printed by SummaryReporter.end() is parsed (all 5 formats) and compared with a census of the real model, likewise "
     "SummaryCollector and all format functions applied to the reporter's final tables; " + NONTRIVIAL,
     {"quick": 2200, "thorough": 40000})

_e, _r = make_runsim_post("C15", [A.check_C15], prof_C15, A.post_C15, c15_probe)
_reg("C15", _e, _r, "exploration",
     "two recording formatters (first and last position) around random subsets of the built-in formatters; event "
     "grammar, agreement, results vs the model's processed steps; JSON re-read with json.loads and compared with the "
     "census (each status on its own element) and read back with behave.json_parser; plain output re-parsed; " + NONTRIVIAL,
     {"quick": 2200, "thorough": 40000})

_e, _r = make_runsim_post("C16", [A.check_C16], prof_C16, None, c16_probe)
_reg("C16", _e, _r, "exploration",
     "--junit worlds with hostile characters in names, messages and captured output; every TESTS-*.xml parsed with "
     "expat; test cases vs census, counters vs entries, failure/error entry naming the step or hook; " + NONTRIVIAL,
     {"quick": 2200, "thorough": 40000})

_e18, _r = make_runsim_post("C18", [A.check_C18], prof_C18, None, c18_probe, child_every=211)


def c18_evaluate(seed, hashseed, root, stats):
    out, dig = _e18(seed, hashseed, root, stats)
    if (seed // 16) % 40 == 0:
        world = W.gen_world(seed, profile=prof_C18)
        world["hashseed"] = hashseed
        o2, d2 = enumerate_step_faults("C18", world, root, stats, [A.check_C18])
        out = list(out) + o2
        dig = hashlib.sha1((dig + d2).encode("ascii")).hexdigest()
    return out, dig


_e = c18_evaluate
_reg("C18", _e, _r, "exploration",
     "steps and step hooks print unique markers to stdout/stderr/logging under all 8 capture switch combinations, "
     "all outcome classes incl. interrupt and step-hook errors, nested execute_steps, several scenarios in sequence; "
     "simulator-owned TTY objects record every chunk with the active callback; probes of sys.stdout/sys.stderr identity "
     "and root logger state at every callback; for every 40th world every step call-site x {assert, exception, "
     "not-implemented, interrupt, skip} is enumerated; " + NONTRIVIAL,
     {"quick": 1400, "thorough": 30000})


# --- C17: two-run history ---------------------------------------------------
def c17_eval_world(world, root, stats):
    out = []
    hist = R.run_world(world, root)
    pred = M.Acceptor(world, hist).run()
    if stats is not None:
        stats.note_run(world, hist)
        _record_sample(stats, world, hist)
    for v in A.check_C17_file(world, hist, pred):
        out.append((world, v, None))
    esc = O.escaped_violation(hist)
    if esc is not None and esc["prop"] == "C17":
        out.append((world, esc, None))
    dig = R.history_digest(hist)
    # second run: feed the rerun file back, all faults removed
    for name, outp in world["cfg"]["formatters"]:
        if name != "rerun" or not outp:
            continue
        text = hist["artifacts"].get(outp)
        if text is None or hist.get("escaped") or hist.get("config_error"):
            if stats is not None:
                stats.probe("run1-without-rerun-file")
            continue
        locs = A.rerun_locations(text)
        if not locs or any(v["rule"] == "stale-file" for (_w, v, _c) in out):
            continue
        w2 = copy.deepcopy(world)
        w2["script"] = {}
        w2["autoretry"] = {}
        c2 = w2["cfg"]
        c2.update({"tagexpr": None, "tag_args": [], "tags_protocol": None, "names": [], "stop": False,
                   "dry_run": False, "wip": False, "junit": False, "listfile": None})
        c2["formatters"] = [["plain", "out/plain_second.txt"]]
        c2["paths"] = locs
        w2["stale_rerun"] = False
        if "/" in outp:
            # the rerun file lives in a sub-directory: behave resolves the (cwd-relative) locations
            # in it relative to the list file's directory.  Probe that once, then continue the
            # two-run history with a copy of the file in the working directory.
            c2["paths_raw"] = ["@" + outp]
            w2["extra_files"] = {outp: text}
            hx = R.run_world(w2, root)
            if stats is not None:
                stats.note_run(w2, hx)
                stats.probe("second-run-from-subdirectory")
            if not hx.get("escaped") and [f["id"] for f in hx["census"]] != M.Selection(w2, hx).loaded:
                out.append((world, O.V("C17", "second-run-selection", "rerun-file-in-subdirectory:not-loadable",
                                       file=outp, tail="".join(c[2] for c in hx["tty_out"])[-160:]), None))
            fed = "rerun_fed_back.txt"
        else:
            fed = outp
        c2["paths_raw"] = ["@" + fed]
        w2["extra_files"] = {fed: text}
        h2 = R.run_world(w2, root)
        p2 = M.Acceptor(w2, h2).run()
        if stats is not None:
            stats.note_run(w2, h2)
            stats.probe("second-runs")
            stats.probe("locations-fed-back", len(locs))
        dig += R.history_digest(h2)
        if h2.get("escaped") or h2.get("config_error"):
            esc2 = O.escaped_violation(h2)
            out.append((world, O.V("C17", "second-run-selection",
                                   "second-run-crashed:%s" % ((h2.get("escaped") or {}).get("type") or "config"),
                                   error=h2.get("config_error") or h2.get("escaped")), None))
            continue
        vs2 = O.check_C10(w2, h2, p2) + O.check_C09(w2, h2, p2)
        for v in vs2:
            out.append((world, O.V("C17", "second-run-selection", "%s:%s" % (v["rule"], v["key"]), **v["detail"]), None))
        # executed set == listed set
        executed = set(e["scen"] for e in h2["events"] if e["depth"] == 0 and e["kind"] in ("step", "hook") and e.get("scen"))
        idx2 = O.census_index(h2)
        listed = set()
        for sid, node in idx2.items():
            if node["kind"] == "scenario":
                fn = None
                for f in h2["census"]:
                    if sid.startswith(f["id"] + "."):
                        fn = f["filename"]
                if "%s:%d" % (fn, node["line"]) in locs:
                    listed.add(sid)
        exempt = set(sid for sid, node in idx2.items() if node["kind"] == "scenario"
                     and ({"setup", "teardown"} & set(node["tags"])))     # C10's documented exemption
        extra = sorted(executed - listed - exempt)
        if extra:
            out.append((world, O.V("C17", "second-run-selection", "executed-not-listed", scenarios=extra[:5]), None))
        for sid in sorted(listed):
            node = idx2[sid]
            if node["status"] in ("skipped", "untested") and node["steps"]:
                out.append((world, O.V("C17", "second-run-selection", "listed-not-executed:" + node["status"], scen=sid), None))
                break
        for sid, node in sorted(idx2.items()):
            if node["kind"] == "scenario" and sid not in listed and node["status"] != "skipped" and node["steps"]:
                own = set(node["tags"])
                if "setup" in own or "teardown" in own:
                    continue
                out.append((world, O.V("C17", "second-run-selection", "unlisted-not-skipped:" + node["status"], scen=sid), None))
                break
    return [(w, v, c) for (w, v, c) in out if v["prop"] == "C17"], hashlib.sha1(dig.encode("ascii")).hexdigest()


def c17_evaluate(seed, hashseed, root, stats):
    world = W.gen_world(seed, profile=prof_C17)
    world["hashseed"] = hashseed
    return c17_eval_world(world, root, stats)


def c17_reproduce(world, root, ctx):
    vs, _ = c17_eval_world(world, root, None)
    return [v for (_w, v, _c) in vs]


_reg("C17", c17_evaluate, c17_reproduce, "exploration",
     "two-run histories: run 1 with -f rerun -o FILE (sometimes over a stale file) over passing / failing / erroring / "
     "hook-error / skipped scenarios, plain and outline rows, in and outside rules; file content vs census in run order; "
     "run 2 is fed '@FILE' with all faults removed and must execute exactly the listed scenarios; " + NONTRIVIAL,
     {"quick": 1300, "thorough": 25000})


# --- C05: parser file-fault simulator ----------------------------------------
from . import parsersim as PS    # noqa: E402

_reg("C05", PS.evaluate, PS.reproduce, "fault_enumeration",
     "per sampled valid rendered document EVERY (line position x storage fault kind) is enumerated: torn write after / "
     "inside each line, lost line, duplicated line, swapped adjacent lines; plus each catalogued grammar violation "
     "(second Feature, free text after a step, Examples outside an outline, And/But without predecessor, wrong cell "
     "count, malformed tag token, second Background) at every position where it is a violation, through parse_file "
     "(file on the scratch disk) / parse_feature / parse_rule / parse_scenario / parse_steps / parse_tags, plus line "
     "soups in several languages. distinct = distinct base documents; non-trivial = documents with more than 5 lines; "
     "evaluations = faulted parses",
     {"quick": 60, "thorough": 1500}, minimise=PS.minimise,
     extra_assumptions=["documents are rendered from the abstract trees of sim/world.py (English keywords and aliases; "
                        "other languages only in line soups)"],
     coverage_extra={"enumeration": "complete over line positions x fault kinds for each sampled document"})
PROPS["C05"]["assumptions"] = [a for a in PROPS["C05"]["assumptions"] if "reference model" not in a and "user code" not in a]


def prof_C11(d, rng):
    d["steplib"] = "rich"
    d["p_undefined"] = rng.choice([0.0, 0.05, 0.15])
    d["autoretry"] = False
    d["nested"] = rng.random() < 0.2


# --- C11: registry history machine + dispatch through real runs ----------------
from . import registrysim as RS   # noqa: E402


def c11_evaluate(seed, hashseed, root, stats):
    out, d1 = RS.evaluate(seed, hashseed, root, stats)
    world = W.gen_world(seed, profile=prof_C11)
    world["hashseed"] = hashseed
    vs, hist, pred = run_and_judge("C11", world, root, stats, [O.check_C11_runs])
    n_steps = sum(1 for e in hist["events"] if e["kind"] == "step" and e["depth"] == 0)
    stats.probe("step-dispatches-through-Step.run", n_steps)
    stats.probe("converter-faults-in-runs", hist.get("fired", {}).get("converter_raises", 0))
    out = list(out) + [(world, v, None) for v in vs if v["prop"] == "C11"]
    return out, hashlib.sha1((d1 + R.history_digest(hist)).encode("ascii")).hexdigest()


def c11_reproduce(world, root, ctx):
    if world.get("registry_case"):
        return RS.reproduce(world, root, ctx)
    vs, _h, _p = run_and_judge("C11", world, root, None, [O.check_C11_runs])
    return [v for v in vs if v["prop"] == "C11"]


def c11_minimise(world, violation, spec, root, ctx, budget=300):
    if world.get("registry_case"):
        return world
    from . import minimise as MIN
    return MIN.ddmin(world, violation, spec, root, ctx, budget)


_reg("C11", c11_evaluate, c11_reproduce, "exploration",
     "registration histories (type, pattern, function) over parse / cfparse / re matchers with use_step_matcher switches, "
     "register_type converters (one of which faults on a value), deliberate same-type and cross-type overlaps, module "
     "re-loads, followed by lookups (step type x text: exact instance, wrong case, extra prefix/suffix, changed literal, "
     "value that makes the converter raise) against a fresh real StepRegistry, compared with a reference registry (ordered "
     "lists + the model's own anchored regexes): chosen definition, arguments (value, name, start/end, original), "
     "AmbiguousStep exactly when required; plus run-sim worlds where the shim records which definition was dispatched by "
     "the real Step.run with which positional/keyword arguments. evaluations = registry operations + runs; distinct = "
     "distinct operation/outcome digests",
     {"quick": 700, "thorough": 15000}, minimise=c11_minimise)


# --- C06: outline expansion -----------------------------------------------------
def prof_C06(d, rng):
    d["opts"] = {"p_outline": rng.choice([0.5, 0.7, 0.9]), "p_rule": rng.choice([0.0, 0.3]),
                 "p_doc": 0.25, "p_table": 0.3, "p_step_placeholder": 0.6, "allow_no_table_examples": True,
                 "p_background": rng.choice([0.0, 0.4])}
    d["steplib"] = "rich"
    d["table_mutation"] = rng.random() < 0.4
    d["outline_schemas"] = True
    d["autoretry"] = False
    d["junit"] = False
    d["dry_run"] = rng.random() < 0.1
    d["hook_skips"] = False
    d["status_reads"] = rng.random() < 0.25    # user code walks the model (builds outline rows early)


def c06_probe(world, hist, pred, stats):
    for f in world["features"]:
        for it in f["items"]:
            its = it["items"] if it["kind"] == "rule" else [it]
            for x in its:
                if x["kind"] == "outline":
                    stats.probe("outlines")
                    stats.probe("rows", sum(len(e["rows"]) for e in x["examples"]))
                    if any(not e["rows"] for e in x["examples"]):
                        stats.probe("examples-block-without-rows")
                    if any("<" in t for t in x["tags"]):
                        stats.probe("parametrised-tag")
                    if any("<" in s["text"] for s in x["steps"]):
                        stats.probe("placeholder-in-step-text")
    if world["cfg"].get("outline_schema"):
        stats.probe("custom-annotation-schema")


_e, _r = make_runsim("C06", [O.check_C06], prof_C06, c06_probe)
_reg("C06", _e, _r, "exploration",
     "worlds dense in scenario outlines (placeholders in name, step text, doc-strings, step tables, tags; several "
     "examples blocks with different column orders, tags and row counts incl. none; empty / unicode / column-name-like "
     "cells; annotation schemas) whose hooks modify examples tables through the table API before the outline runs and "
     "whose steps mutate their own context.table mid-run; the row scenarios of the real model after the run (count, "
     "order, name, tags, line, step text / doc-string / table) and the untouched template are compared with the model's "
     "expansion; " + NONTRIVIAL,
     {"quick": 2200, "thorough": 40000})
