# -*- coding: utf-8 -*-
"""Delta-debugging style minimisation of a violating world.

A candidate is kept iff re-executing it reproduces the same
(property, rule, key) fingerprint.  Budget: <= 300 re-executions.
"""
from __future__ import annotations

import copy
import random

from . import world as W


def rerender(world):
    rng = random.Random(0)
    world["files"] = {}
    world["lines"] = {}
    for f in world["features"]:
        text, lm = W.render_feature(f, rng, p_noise=0.0)
        world["files"][f["path"]] = text
        world["lines"].update(lm)
    return world


def _containers(world):
    for f in world["features"]:
        yield f
        for it in f["items"]:
            if it["kind"] == "rule":
                yield it


def _scenarios(world):
    for c in _containers(world):
        for it in c["items"]:
            if it["kind"] in ("scenario", "outline"):
                yield it


def candidates(world):
    """Yield (description, function(world_copy) -> bool(applied))."""
    structural = world["cfg"].get("paths") is None
    if structural:
        if len(world["features"]) > 1:
            for i in range(len(world["features"])):
                def f(w, i=i):
                    if len(w["features"]) <= 1 or i >= len(w["features"]):
                        return False
                    del w["features"][i]
                    return True
                yield "drop-feature-%d" % i, f, True
        cont_n = len(list(_containers(world)))
        for ci in range(cont_n):
            c = list(_containers(world))[ci]
            for j in reversed(range(len(c["items"]))):
                def f(w, ci=ci, j=j):
                    cs = list(_containers(w))
                    if ci >= len(cs) or j >= len(cs[ci]["items"]) or len(cs[ci]["items"]) <= 0:
                        return False
                    if cs[ci] in w["features"] and len(cs[ci]["items"]) == 1:
                        return False
                    del cs[ci]["items"][j]
                    return True
                yield "drop-item-%d-%d" % (ci, j), f, True
            if c.get("background"):
                def f(w, ci=ci):
                    cs = list(_containers(w))
                    if ci >= len(cs) or not cs[ci].get("background"):
                        return False
                    cs[ci]["background"] = None
                    return True
                yield "drop-background-%d" % ci, f, True
        sc_n = len(list(_scenarios(world)))
        for si in range(sc_n):
            sc = list(_scenarios(world))[si]
            for j in reversed(range(len(sc["steps"]))):
                def f(w, si=si, j=j):
                    ss = list(_scenarios(w))
                    if si >= len(ss) or j >= len(ss[si]["steps"]):
                        return False
                    del ss[si]["steps"][j]
                    return True
                yield "drop-step-%d-%d" % (si, j), f, True
            for j, st in enumerate(sc["steps"]):
                if st.get("doc") is not None or st.get("table"):
                    def f(w, si=si, j=j):
                        ss = list(_scenarios(w))
                        if si >= len(ss) or j >= len(ss[si]["steps"]):
                            return False
                        st = ss[si]["steps"][j]
                        if st.get("doc") is None and not st.get("table"):
                            return False
                        st.pop("doc", None)
                        st.pop("table", None)
                        return True
                    yield "drop-multiline-%d-%d" % (si, j), f, True
            if sc["kind"] == "outline":
                for e in reversed(range(len(sc["examples"]))):
                    for r in reversed(range(len(sc["examples"][e]["rows"]))):
                        def f(w, si=si, e=e, r=r):
                            ss = list(_scenarios(w))
                            if si >= len(ss) or ss[si]["kind"] != "outline":
                                return False
                            ex = ss[si]["examples"]
                            if e >= len(ex) or r >= len(ex[e]["rows"]):
                                return False
                            if sum(len(x["rows"]) for x in ex) <= 1:
                                return False
                            del ex[e]["rows"][r]
                            return True
                        yield "drop-row-%d-%d-%d" % (si, e, r), f, True
        # tags
        elems = []
        for c in _containers(world):
            elems.append(c)
        for s in _scenarios(world):
            elems.append(s)
            if s["kind"] == "outline":
                elems.extend(s["examples"])
        for ei, el in enumerate(elems):
            for t in list(el["tags"]):
                def f(w, ei=ei, t=t):
                    els = []
                    for c in _containers(w):
                        els.append(c)
                    for s in _scenarios(w):
                        els.append(s)
                        if s["kind"] == "outline":
                            els.extend(s["examples"])
                    if ei >= len(els) or t not in els[ei]["tags"]:
                        return False
                    els[ei]["tags"].remove(t)
                    return True
                yield "drop-tag-%d-%s" % (ei, t), f, True
    # script entries
    for key in sorted(world["script"]):
        def f(w, key=key):
            if key not in w["script"]:
                return False
            del w["script"][key]
            return True
        yield "drop-script-%s" % key, f, False
    for key in sorted(world["script"]):
        ent = world["script"][key]
        for ai in reversed(range(len(ent["acts"]))):
            def f(w, key=key, ai=ai):
                e = w["script"].get(key)
                if not e or ai >= len(e["acts"]):
                    return False
                del e["acts"][ai]
                return True
            yield "drop-action-%s-%d" % (key, ai), f, False
        if ent["out"].get("msg") not in (None, "m"):
            def f(w, key=key):
                e = w["script"].get(key)
                if not e or e["out"].get("msg") in (None, "m"):
                    return False
                e["out"]["msg"] = "m"
                return True
            yield "simplify-msg-%s" % key, f, False
    for h in list(world["hooks"]):
        def f(w, h=h):
            if h not in w["hooks"]:
                return False
            w["hooks"].remove(h)
            return True
        yield "drop-hook-%s" % h, f, False
    cfg = world["cfg"]
    simple = [("junit", False), ("stop", False), ("dry_run", False), ("wip", False),
              ("names", []), ("logging_level", None), ("logging_filter", None),
              ("logging_clear_handlers", False), ("userdata", {}), ("color", False),
              ("continue_after_failed", False), ("show_skipped", True), ("summary", True),
              ("multiline", True), ("timings", False)]
    for k, v in simple:
        if cfg.get(k) != v:
            def f(w, k=k, v=v):
                if w["cfg"].get(k) == v:
                    return False
                w["cfg"][k] = copy.deepcopy(v)
                return True
            yield "cfg-%s" % k, f, False
    if cfg.get("tagexpr") is not None:
        def f(w):
            if w["cfg"].get("tagexpr") is None:
                return False
            w["cfg"]["tagexpr"] = None
            w["cfg"]["tag_args"] = []
            w["cfg"]["tags_protocol"] = None
            return True
        yield "cfg-no-tags", f, False
    if cfg["capture"] != {"stdout": True, "stderr": True, "log": True}:
        def f(w):
            w["cfg"]["capture"] = {"stdout": True, "stderr": True, "log": True}
            return True
        yield "cfg-capture-default", f, False
    if len(cfg["formatters"]) > 1:
        for i in reversed(range(len(cfg["formatters"]))):
            def f(w, i=i):
                if i >= len(w["cfg"]["formatters"]) or len(w["cfg"]["formatters"]) <= 1:
                    return False
                del w["cfg"]["formatters"][i]
                return True
            yield "drop-formatter-%d" % i, f, False
    if world.get("autoretry"):
        def f(w):
            if not w.get("autoretry"):
                return False
            w["autoretry"] = {}
            return True
        yield "drop-autoretry", f, False
    if world["dims"].get("clock") != "steady":
        def f(w):
            w["dims"]["clock"] = "steady"
            return True
        yield "steady-clock", f, False
    if world.get("hashseed", 0) != 0:
        def f(w):
            w["hashseed"] = 0
            return True
        yield "hashseed-0", f, False


def ddmin(world, violation, spec, root, ctx, budget=300):
    want = (violation["prop"], violation["rule"], violation["key"])

    def reproduces(w):
        try:
            vs = spec["reproduce"](w, root, ctx)
        except Exception:
            return False
        return any((v["prop"], v["rule"], v["key"]) == want for v in vs)

    cur = copy.deepcopy(world)
    evals = 0
    # sanity: the un-minimised world must reproduce, else give it back untouched
    if not reproduces(cur):
        return world
    evals += 1
    progress = True
    while progress and evals < budget:
        progress = False
        for desc, fn, structural in list(candidates(cur)):
            if evals >= budget:
                break
            cand = copy.deepcopy(cur)
            try:
                if not fn(cand):
                    continue
                if structural:
                    rerender(cand)
            except Exception:
                continue
            evals += 1
            if reproduces(cand):
                cur = cand
                progress = True
    cur["minimised"] = {"evaluations": evals}
    return cur
