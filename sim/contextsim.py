# -*- coding: utf-8 -*-
"""C13: context history machine.

Drives a REAL behave.runner.Context (real ModelRunner + real Configuration)
and a dict-stack reference model with the same seeded operation history:
  push(layer) / pop / set / get / delete / contains / set-root /
  use_or_assign_param / use_or_create_param / add_cleanup (plain, with args,
  layer=, same function twice) / use_fixture (generator, plain, failing setup,
  composite) / user- vs behave-mode
with a chosen SUBSET of cleanups raising (all subsets for <= 4 cleanups,
sampled beyond).  After every operation every name is read back through the
public API and compared; at every pop the cleanup log is compared (exactly
once, LIFO, all run although some raise, first error re-raised, frame removed).
"""
from __future__ import annotations

import hashlib
import itertools
import random
import warnings

from .oracles import V

NAMES = ["va", "vb", "vc", "vd", "layer"]      # ("layer": an ordinary user attribute name)
LAYERS = ["feature", "rule", "scenario"]


class Model(object):
    def __init__(self):
        self.stack = [{"attrs": {}, "layer": "testrun", "cleanups": []}]

    def visible(self, name):
        for fr in reversed(self.stack):
            if name in fr["attrs"]:
                return True, fr["attrs"][name]
        return False, None

    def frame_for_layer(self, layer):
        for fr in reversed(self.stack):
            if fr["layer"] == layer:
                return fr
        return None


def gen_history(rng):
    n = rng.randint(4, 28) if rng.random() < 0.85 else rng.randint(28, 70)
    ops = []
    depth = 0
    cid = 0
    for _ in range(n):
        r = rng.random()
        if r < 0.12 and depth < 3:
            ops.append(["push", rng.choice(LAYERS + [None]) if rng.random() < 0.2 else LAYERS[min(depth, 2)]])
            depth += 1
        elif r < 0.22 and depth > 0:
            ops.append(["pop"])
            depth -= 1
        elif r < 0.42:
            ops.append(["set", rng.choice(NAMES), rng.random() < 0.7, rng.random() < 0.12])     # [3]: value None
        elif r < 0.50:
            ops.append(["del", rng.choice(NAMES)])
        elif r < 0.55:
            ops.append(["set_root", rng.choice(NAMES)])
        elif r < 0.60:
            ops.append(["use_or_assign", rng.choice(NAMES)])
        elif r < 0.65:
            ops.append(["use_or_create", rng.choice(NAMES)])
        elif r < 0.85:
            kind = rng.choice(["plain", "plain", "args", "layer", "twice", "args2", "reuse", "reuse"])
            op = ["cleanup", kind, cid]
            cid += 2 if kind == "args2" else 1
            if kind == "layer":
                op.append(rng.choice(["testrun"] + LAYERS))
                op.append(rng.random() < 0.3)        # registered twice
            ops.append(op)
        else:
            kind = rng.choice(["generator", "generator", "plain", "failing_setup", "composite", "nested"])
            op = ["fixture", kind, cid]
            cid += 3 if kind in ("composite", "nested") else 1
            ops.append(op)
    while depth > 0:
        ops.append(["pop"])
        depth -= 1
    ops.append(["final"])
    return ops, cid


def run_history(ops, raising, stats=None):
    import contextlib
    import io
    with contextlib.redirect_stdout(io.StringIO()):     # behave prints CLEANUP-ERROR reports
        return _run_history(ops, raising, stats)


def _run_history(ops, raising, stats=None):
    """Execute one history against a real Context and the model. Returns (violation or None, digest)."""
    from behave.configuration import Configuration
    from behave.runner import Context, ModelRunner
    from behave.fixture import use_fixture, fixture, use_composite_fixture_with, fixture_call_params
    config = Configuration(command_args=[], load_config=False)
    runner = ModelRunner(config)
    context = Context(runner)
    runner.context = context
    model = Model()
    log = []
    val_n = [0]
    dig = hashlib.sha1()
    cleanup_funcs = {}
    plain_ids = set()

    class CleanupBoom(Exception):
        pass

    def make_cleanup(c):
        def cleanup_func(*args, **kwargs):
            log.append(c)
            if c in raising:
                raise CleanupBoom("cleanup %d" % c)
        cleanup_func.__name__ = "cleanup_%d" % c
        cleanup_funcs[c] = cleanup_func
        return cleanup_func

    def next_val():
        val_n[0] += 1
        return "v%d" % val_n[0]

    def check_all(where, i):
        # what behave itself put into the test-run scope is visible like any other attribute
        for nm in ("config", "aborted", "failed"):
            if nm not in context or not hasattr(context, nm):
                return V("C13", "visibility", "machine:builtin-root-attribute:after-%s" % where, op_index=i, name=nm,
                         contains=nm in context, has=hasattr(context, nm))
        for nm in NAMES:
            want_in, want_val = model.visible(nm)
            got_in = nm in context
            try:
                got_val = getattr(context, nm)
                got_has = True
            except AttributeError:
                got_val, got_has = None, False
            if got_in != want_in or got_has != want_in or (want_in and got_val != want_val):
                rule = "leak-after-scope" if (got_in and not want_in) else \
                    ("visibility" if (want_in and not got_in) else "shadow-altered-outer")
                return V("C13", rule, "machine:%s:after-%s" % (rule, where), op_index=i, name=nm,
                         model=[want_in, want_val], actual=[got_in, got_has, got_val], depth=len(model.stack))
        return None

    def expected_pop_log(frame):
        return [c for c in reversed(frame["cleanups"])]

    def do_pop(i, final=False):
        frame = model.stack[-1]
        want = expected_pop_log(frame)
        before = len(log)
        raised = None
        try:
            if final:
                context._do_cleanups()
            else:
                context._pop()
        except CleanupBoom as e:
            raised = e
        except Exception as e:      # noqa
            return V("C13", "cleanup-wrong-time", "machine:pop-raised:%s" % type(e).__name__, op_index=i, error=str(e)[:200])
        got = log[before:]
        if got != want:
            if sorted(got) != sorted(want):
                missing = [c for c in want if c not in got]
                twice = [c for c in set(got) if got.count(c) > 1]
                rule = "cleanup-twice" if twice else ("cleanup-missing" if missing else "cleanup-wrong-time")
            else:
                rule = "cleanup-order"
            return V("C13", rule, "machine:%s" % rule, op_index=i, model=want, actual=got,
                     raising=sorted(c for c in want if c in raising))
        first_raiser = next((c for c in want if c in raising), None)
        if (first_raiser is None) != (raised is None):
            return V("C13", "cleanup-error-not-failing", "machine:error-%s" % ("swallowed" if raised is None else "spurious"),
                     op_index=i, raising=sorted(c for c in want if c in raising))
        if raised is not None and str(raised) != "cleanup %d" % first_raiser:
            return V("C13", "cleanup-error-not-failing", "machine:wrong-error-reraised", op_index=i,
                     raised=str(raised), first=first_raiser)
        if not final:
            model.stack.pop()
            if len(context._stack) != len(model.stack):
                return V("C13", "leak-after-scope", "machine:frame-not-removed", op_index=i,
                         real=len(context._stack), model=len(model.stack))
        else:
            frame["cleanups"] = []
        return None

    for i, op in enumerate(ops):
        k = op[0]
        dig.update((repr(op) + "|").encode("ascii"))
        if stats is not None:
            stats.fired["op:" + k + (":" + str(op[1]) if k in ("cleanup", "fixture") else "")] = \
                stats.fired.get("op:" + k + (":" + str(op[1]) if k in ("cleanup", "fixture") else ""), 0) + 1
        try:
            with warnings.catch_warnings():
                warnings.simplefilter("ignore")
                if k == "push":
                    context._push(layer=op[1])
                    model.stack.append({"attrs": {}, "layer": op[1], "cleanups": []})
                elif k == "pop":
                    v = do_pop(i)
                    if v:
                        return v, dig.hexdigest()
                elif k == "final":
                    v = do_pop(i, final=True)
                    if v:
                        return v, dig.hexdigest()
                elif k == "set":
                    val = next_val()
                    if len(op) > 3 and op[3]:
                        val = None      # an attribute that EXISTS with the value None
                    if op[2]:
                        with context.use_with_user_mode():
                            setattr(context, op[1], val)
                    else:
                        setattr(context, op[1], val)
                    model.stack[-1]["attrs"][op[1]] = val
                elif k == "del":
                    here = op[1] in model.stack[-1]["attrs"]
                    try:
                        delattr(context, op[1])
                        res = "ok"
                    except AttributeError:
                        res = "AttributeError"
                    if res != ("ok" if here else "AttributeError"):
                        return V("C13", "delete-wrong-scope", "machine:delete:%s" % res, op_index=i, name=op[1],
                                 in_top_frame=here), dig.hexdigest()
                    if here:
                        del model.stack[-1]["attrs"][op[1]]
                elif k == "set_root":
                    val = next_val()
                    context._set_root_attribute(op[1], val)
                    model.stack[0]["attrs"][op[1]] = val
                elif k == "use_or_assign":
                    val = next_val()
                    want_in, want_val = model.visible(op[1])
                    got = context.use_or_assign_param(op[1], val)
                    if not want_in:
                        model.stack[-1]["attrs"][op[1]] = val
                        want_val = val
                    if got != want_val:
                        return V("C13", "visibility", "machine:use_or_assign", op_index=i, model=want_val, actual=got), dig.hexdigest()
                elif k == "use_or_create":
                    val = next_val()
                    calls = []

                    def factory(x):
                        calls.append(x)
                        return x
                    want_in, want_val = model.visible(op[1])
                    got = context.use_or_create_param(op[1], factory, val)
                    if not want_in:
                        model.stack[-1]["attrs"][op[1]] = val
                        want_val = val
                    if got != want_val or bool(calls) != (not want_in):
                        return V("C13", "visibility", "machine:use_or_create", op_index=i, model=want_val, actual=got,
                                 factory_called=bool(calls)), dig.hexdigest()
                elif k == "cleanup":
                    kind, c = op[1], op[2]
                    f = make_cleanup(c)
                    if kind == "plain":
                        context.add_cleanup(f)
                        model.stack[-1]["cleanups"].append(c)
                        plain_ids.add(c)
                    elif kind == "twice":
                        context.add_cleanup(f)
                        context.add_cleanup(f)      # the very same function: one registration
                        model.stack[-1]["cleanups"].append(c)
                    elif kind == "args":
                        context.add_cleanup(f, c, key=c)
                        model.stack[-1]["cleanups"].append(c)
                    elif kind == "reuse":
                        # the SAME plain function that is already registered in an OUTER live scope is
                        # registered again here: two registrations, each runs when its own scope ends
                        outer = [cc for fr in model.stack[:-1] for cc in fr["cleanups"]
                                 if cc in cleanup_funcs and cc in plain_ids and cc not in model.stack[-1]["cleanups"]]
                        if outer:
                            cc = outer[-1]
                            context.add_cleanup(cleanup_funcs[cc])
                            model.stack[-1]["cleanups"].append(cc)
                        else:
                            context.add_cleanup(f)
                            model.stack[-1]["cleanups"].append(c)
                            plain_ids.add(c)
                    elif kind == "args2":
                        # ONE function registered twice with different arguments: two cleanups
                        def shared(x):
                            log.append(x)
                            if x in raising:
                                raise CleanupBoom("cleanup %d" % x)
                        context.add_cleanup(shared, c)
                        context.add_cleanup(shared, c + 1)
                        model.stack[-1]["cleanups"].extend([c, c + 1])
                    elif kind == "layer":
                        fr = model.frame_for_layer(op[3])
                        try:
                            context.add_cleanup(f, layer=op[3])
                            ok = True
                        except LookupError:
                            ok = False
                        if ok != (fr is not None):
                            return V("C13", "cleanup-wrong-time", "machine:layer-lookup", op_index=i, layer=op[3],
                                     accepted=ok), dig.hexdigest()
                        if fr is not None:
                            fr["cleanups"].append(c)
                            if len(op) > 4 and op[4]:
                                # the very same function for the very same layer again: still one registration
                                context.add_cleanup(f, layer=op[3])
                elif k == "fixture":
                    kind, c = op[1], op[2]
                    if kind == "generator":
                        @fixture
                        def gen_fx(ctx, c=c):
                            yield c
                            log.append(c)
                            if c in raising:
                                raise CleanupBoom("cleanup %d" % c)
                        use_fixture(gen_fx, context)
                        model.stack[-1]["cleanups"].append(c)
                    elif kind == "plain":
                        @fixture
                        def plain_fx(ctx, c=c):
                            return c
                        use_fixture(plain_fx, context)
                    elif kind == "failing_setup":
                        @fixture
                        def bad_fx(ctx, c=c):
                            raise RuntimeError("setup fails")
                            yield c     # noqa
                        try:
                            use_fixture(bad_fx, context)
                        except RuntimeError:
                            pass
                    elif kind == "composite":
                        def mk(cc):
                            @fixture
                            def part(ctx):
                                yield cc
                                log.append(cc)
                                if cc in raising:
                                    raise CleanupBoom("cleanup %d" % cc)
                            return part

                        @fixture
                        def bad_part(ctx):
                            raise RuntimeError("setup fails")
                            yield None  # noqa
                        try:
                            use_composite_fixture_with(context, [fixture_call_params(mk(c)), fixture_call_params(mk(c + 1)),
                                                                 fixture_call_params(bad_part)])
                        except RuntimeError:
                            pass
                        model.stack[-1]["cleanups"].extend([c, c + 1])
                    elif kind == "nested":
                        def mk2(cc):
                            @fixture
                            def inner(ctx):
                                yield cc
                                log.append(cc)
                                if cc in raising:
                                    raise CleanupBoom("cleanup %d" % cc)
                            return inner

                        @fixture
                        def outer(ctx, c=c):
                            use_fixture(mk2(c + 1), ctx)
                            ctx.add_cleanup(make_cleanup(c + 2))
                            yield c
                            log.append(c)
                            if c in raising:
                                raise CleanupBoom("cleanup %d" % c)
                        use_fixture(outer, context)
                        # the outer teardown was registered first => runs last
                        model.stack[-1]["cleanups"].extend([c, c + 1, c + 2])
        except Exception as e:      # noqa
            import traceback
            tb = traceback.extract_tb(e.__traceback__)
            where = tb[-1].name if tb else "?"
            return V("C13", "visibility", "machine:%s-raised:%s@%s" % (k, type(e).__name__, where), op_index=i,
                     op=op, error=str(e)[:200]), dig.hexdigest()
        v = check_all(k, i)
        if v:
            return v, dig.hexdigest()
    return None, dig.hexdigest()


def evaluate(seed, hashseed, root, stats):
    rng = random.Random(seed)
    ops, ncl = gen_history(rng)
    out = []
    dig = hashlib.sha1()
    world = {"seed": seed, "hashseed": hashseed, "context_case": True, "ops": ops}
    ids = list(range(ncl))
    if ncl <= 4:
        subsets = [set(c) for r in range(ncl + 1) for c in itertools.combinations(ids, r)]
        if stats is not None:
            stats.probe("histories-with-all-cleanup-subsets")
    else:
        subsets = [set()] + [set(rng.sample(ids, rng.randint(1, min(ncl, 4)))) for _ in range(7)] + [set(ids)]
    n = 0
    for sub in subsets:
        v, d = run_history(ops, sub, stats)
        n += 1
        dig.update(d.encode("ascii"))
        if v is not None:
            w = dict(world, raising=sorted(sub))
            out.append((w, v, None))
            break
    stats.runs += n
    sig = dig.hexdigest()[:16]
    stats.sigs.add(sig)
    if ncl or any(o[0] in ("push", "del") for o in ops):
        stats.nontrivial_sigs.add(sig)
    if len(stats.samples) < 2:
        stats.samples.append({"operations": ops[:40], "cleanup_subsets_tried": [sorted(x) for x in subsets[:6]]})
    return out, dig.hexdigest()


def reproduce(world, root, ctx):
    v, _d = run_history(world["ops"], set(world.get("raising", [])), None)
    return [v] if v is not None else []


def minimise(world, violation, spec, root, ctx, budget=300):
    want = (violation["rule"], violation["key"])
    ops = list(world["ops"])
    raising = list(world.get("raising", []))
    evals = 0

    def ok(o, r):
        try:
            v, _ = run_history(o, set(r), None)
        except Exception:
            return False
        return v is not None and (v["rule"], v["key"]) == want
    changed = True
    while changed and evals < budget:
        changed = False
        for k in reversed(range(len(ops) - 1)):
            cand = ops[:k] + ops[k + 1:]
            # keep push/pop balanced
            d = 0
            bad = False
            for o in cand:
                if o[0] == "push":
                    d += 1
                elif o[0] == "pop":
                    d -= 1
                    if d < 0:
                        bad = True
            if bad or d != 0:
                continue
            evals += 1
            if ok(cand, raising):
                ops = cand
                changed = True
        for c in list(raising):
            cand = [x for x in raising if x != c]
            evals += 1
            if ok(ops, cand):
                raising = cand
                changed = True
    return dict(world, ops=ops, raising=raising, minimised={"evaluations": evals})
