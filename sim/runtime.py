# -*- coding: utf-8 -*-
"""SIM runtime: the simulator-owned environment of the real behave runner.

* SimClock / SimTTY / seam patches
* SIM singleton: every generated hook / step / cleanup / fixture / converter
  shim delegates here; SIM logs the event, takes probes, performs the scripted
  actions and realises the scripted outcome.
* run_world(): executes one world through the real ``behave`` code in-process
  and returns the History (event log, census, artefacts, tty chunks, rc).
"""
from __future__ import annotations

import datetime as _datetime
import io
import json
import logging
import os
import random
import shutil
import sys
import traceback
import types
import warnings

from . import world as W


# ---------------------------------------------------------------------------
# seams
# ---------------------------------------------------------------------------
class SimClock(object):
    def __init__(self, mode="steady", seed=0):
        self.t0 = 1.7e9
        self.now = self.t0
        self.mode = mode
        self.rng = random.Random(seed ^ 0x5EED)
        self.reads = 0
        self.jumps = 0

    def time(self):
        self.reads += 1
        if self.mode == "steady":
            self.now += 0.001
        elif self.mode == "jumpy":
            r = self.rng.random()
            if r < 0.1:
                self.now -= self.rng.choice([0.5, 5.0, 3600.0])
                self.jumps += 1
            elif r < 0.2:
                self.now += self.rng.choice([60.0, 86400.0, 1e6])
                self.jumps += 1
            else:
                self.now += 0.01
        # stalled: never advances by reading
        return self.now

    def advance(self, dt):
        self.now += dt

    def elapsed(self):
        return self.now - self.t0


class SimTimeModule(object):
    """Replacement for the ``time`` module object inside behave.model."""
    def __init__(self, clock):
        self._clock = clock

    def time(self):
        return self._clock.time()

    def __getattr__(self, name):
        import time as _t
        return getattr(_t, name)


class SimDateTime(object):
    def __init__(self, clock):
        self._clock = clock

    def now(self, tz=None):
        return _datetime.datetime.fromtimestamp(self._clock.time(), _datetime.timezone.utc).replace(tzinfo=None)

    def __getattr__(self, name):
        return getattr(_datetime.datetime, name)


class SimTTY(io.TextIOBase):
    """The 'real' stdout/stderr of the simulated process."""
    def __init__(self, name, sim, isatty=False):
        super(SimTTY, self).__init__()
        self.name = name
        self.sim = sim
        self.chunks = []        # (seq, active-callback-kind, text)
        self._isatty = isatty
        self.encoding_ = "utf-8"

    @property
    def encoding(self):
        return "utf-8"

    @property
    def errors(self):
        return "strict"

    def writable(self):
        return True

    def isatty(self):
        return self._isatty

    def write(self, text):
        if not isinstance(text, str):
            raise TypeError("SimTTY.write: str expected, got %r" % type(text))
        sim = self.sim
        self.chunks.append((sim.seq, sim.active_kind(), text))
        return len(text)

    def flush(self):
        pass

    def getvalue(self):
        return "".join(c[2] for c in self.chunks)


# ---------------------------------------------------------------------------
# virtual-time asyncio loop (async steps): no real sleeping anywhere
# ---------------------------------------------------------------------------
def make_virtual_loop(clock):
    import asyncio

    class VirtualTimeLoop(asyncio.SelectorEventLoop):
        """time() is the simulated clock; when nothing is ready the clock jumps to the next timer."""
        def __init__(self):
            super(VirtualTimeLoop, self).__init__()
            self._vnow = 0.0
            self.jumps = 0
            self.virtual_seconds = 0.0

        def time(self):
            return self._vnow

        def _run_once(self):
            live = [h._when for h in self._scheduled if not h._cancelled]
            if not self._ready and not live and not self._stopping:
                # nothing can ever wake the loop up again: a real loop would block forever in select()
                raise RuntimeError("virtual-time loop: nothing ready and no timer scheduled (would block forever)")
            if not self._ready and live:
                when = min(live)        # (cancelled timers at the heap top must not hold the clock back)
                if when > self._vnow:
                    self.virtual_seconds += when - self._vnow
                    clock.advance(when - self._vnow)
                    self._vnow = when
                    self.jumps += 1
            super(VirtualTimeLoop, self)._run_once()
    loop = VirtualTimeLoop()
    loop.set_exception_handler(lambda _loop, _ctx: None)    # abandoned / interrupted tasks are expected
    return loop


# ---------------------------------------------------------------------------
# SIM
# ---------------------------------------------------------------------------
class SimKeyboardInterrupt(KeyboardInterrupt):
    pass


class WorldTimeout(BaseException):
    """Raised by the per-run watchdog: the behave run did not terminate (liveness)."""


def _watchdog_seconds():
    try:
        return float(os.environ.get("VERIF_RUN_TIMEOUT", "60"))
    except ValueError:
        return 60.0


def _on_watchdog(signum, frame):
    raise WorldTimeout("behave run did not end within %.0f s of real time" % _watchdog_seconds())


class _Sim(object):
    def __init__(self):
        self.reset(None)

    # -- lifecycle ---------------------------------------------------------
    def reset(self, world):
        self.world = world
        self.script = (world or {}).get("script", {})
        self.events = []
        self.seq = 0
        self.stack = []             # active callbacks (kind, depth info)
        self.counts = {}
        self.attempt = {}           # scenario id -> current attempt
        self.loc2id = {}
        self.marker_n = 0
        self.markers = []           # (marker, seq, stream, scen_id)
        self.cleanup_n = 0
        self.cleanups = {}          # cid -> info
        self.runner = None
        self.clock = None
        self.tty_out = None
        self.tty_err = None
        self.modules_loaded = []
        self.fired = {}
        self.probe_names = list(W.ATTR_NAMES)
        self.ctx_val_n = 0
        self.registrations = []
        self.converter_calls = 0
        self.nested_texts = {}
        self.nested_fail = None
        self._cleanup_ctx = {}
        self.initial_root_handlers = None
        self.harness_errors = []
        self.recorders = []
        self._async_ev = None
        self._async_call = None
        self.vloop = None
        if world:
            for k, ln in world["lines"].items():
                if "#" in k or k.endswith(".BG"):
                    continue
                fid = k.split(".")[0]
                path = None
                for f in world["features"]:
                    if f["id"] == fid:
                        path = f["path"]
                self.loc2id[(path, ln)] = k

    def fire(self, kind, n=1):
        self.fired[kind] = self.fired.get(kind, 0) + n

    def active_kind(self):
        if not self.stack:
            return None
        return self.stack[-1][0]

    def in_step(self):
        return sum(1 for s in self.stack if s[0] == "step")

    # -- identification ----------------------------------------------------
    def elem_id(self, obj):
        if obj is None:
            return None
        try:
            fn = obj.filename
            ln = obj.line
        except Exception:
            return None
        fn = fn.replace(os.sep, "/")
        return self.loc2id.get((fn, ln), "?%s:%s" % (fn, ln))

    def current_scenario_id(self, context):
        try:
            if "scenario" in context:
                return self.elem_id(context.scenario)
        except Exception:
            pass
        return None

    def innermost_element(self, context):
        try:
            if "scenario" in context:
                return self.elem_id(context.scenario)
            if "rule" in context:
                return self.elem_id(context.rule)
            if context.feature is not None:
                return self.elem_id(context.feature)
        except Exception:
            pass
        return None

    def step_index(self, context, step):
        try:
            scenario = context.scenario
        except Exception:
            return None
        for i, s in enumerate(list(scenario.all_steps)):
            if s is step:
                return i
        return None

    @staticmethod
    def find_step_object():
        from behave.model import Step
        f = sys._getframe(2)
        depth = 0
        while f is not None and depth < 40:
            slf = f.f_locals.get("self")
            if isinstance(slf, Step) and f.f_code.co_name == "run":
                return slf
            f = f.f_back
            depth += 1
        return None

    # -- event log ---------------------------------------------------------
    def new_event(self, kind, **kw):
        self.seq += 1
        ev = {"seq": self.seq, "kind": kind, "depth": self.in_step(),
              "raised": None, "did": []}
        ev.update(kw)
        self.events.append(ev)
        return ev

    def probe(self, ev, context):
        """Probes taken at every callback (never touch PRNG / real clock)."""
        p = {}
        p["stdout_is_tty"] = sys.stdout is self.tty_out
        p["stderr_is_tty"] = sys.stderr is self.tty_err
        root = logging.getLogger()
        p["root_level"] = root.level
        p["root_handlers"] = [type(h).__name__ + ":" + getattr(h, "_sim_name", "")
                              for h in root.handlers]
        if context is not None:
            vals = {}
            for n in self.probe_names:
                try:
                    present = n in context
                    vals[n] = getattr(context, n) if present else None
                    if present != hasattr(context, n):
                        vals[n] = "!contains-vs-getattr"
                except Exception as e:  # pragma: no cover
                    vals[n] = "!%s" % type(e).__name__
            p["ctx"] = vals
            try:    # informational only (never used by an oracle)
                p["layers"] = [f.get("@layer") for f in context._stack]
            except Exception:
                pass
        ev["probe"] = p

    # -- scripted actions --------------------------------------------------
    def next_marker(self, stream, scen_id, ev):
        self.marker_n += 1
        m = "MK%04dX" % self.marker_n
        self.markers.append({"m": m, "seq": ev["seq"], "stream": stream,
                             "scen": scen_id, "depth": ev["depth"],
                             "ekind": ev["kind"], "ename": ev.get("name")})
        return m

    def do_actions(self, ev, context, acts, scen_id, element=None):
        for act_index, act in enumerate(acts):
            a = act["a"]
            self._act_site = [ev.get("key"), act_index]
            if a == "print":
                m = self.next_marker(act["stream"], scen_id, ev)
                stream = sys.stdout if act["stream"] == "stdout" else sys.stderr
                stream.write(m + act.get("text", "") + act.get("eol", "\n"))
                ev["did"].append(["print", act["stream"], m])
            elif a == "log":
                m = self.next_marker("log", scen_id, ev)
                self.markers[-1]["logger"] = act["logger"]
                self.markers[-1]["level"] = act["level"]
                lg = logging.getLogger(act["logger"] or None)
                lg.log(getattr(logging, act["level"]), m)
                ev["did"].append(["log", act["logger"], act["level"], m])
            elif a == "log_burst":
                # one marker record followed by more records than a buffering handler's default capacity
                m = self.next_marker("log", scen_id, ev)
                self.markers[-1]["logger"] = ""
                self.markers[-1]["level"] = "ERROR"
                logging.getLogger().error(m)
                lg = logging.getLogger("burst")
                for k in range(act.get("n", 1005)):
                    lg.error("filler %d", k)
                ev["did"].append(["log_burst", act.get("n", 1005), m])
                self.fire("log_burst")
            elif a == "set":
                self.ctx_val_n += 1
                val = "val%d" % self.ctx_val_n
                try:
                    with warnings.catch_warnings():
                        warnings.simplefilter("ignore")
                        setattr(context, act["name"], val)
                    ev["did"].append(["set", act["name"], val])
                except Exception as e:      # user code could catch this as well
                    ev["did"].append(["set-failed", act["name"], type(e).__name__])
            elif a == "del":
                try:
                    delattr(context, act["name"])
                    ev["did"].append(["del", act["name"], "ok"])
                except AttributeError:
                    ev["did"].append(["del", act["name"], "AttributeError"])
                except Exception as e:
                    ev["did"].append(["del", act["name"], type(e).__name__])
            elif a == "cleanup":
                self.do_cleanup_action(ev, context, act)
            elif a == "skip_element":
                target = element
                if target is not None:
                    reason = "because" if act.get("reason") else None
                    if act["how"] == "skip":
                        target.skip(reason=reason)
                    else:
                        target.mark_skipped()
                    ev["did"].append(["skip_element", act["how"]])
            elif a == "hijack_stream":
                # the step replaces sys.stdout / sys.stderr by an object of its own and does not put the
                # old one back (only while behave's capture is in force for that stream)
                cur = getattr(sys, act["stream"])
                if cur is not (self.tty_out if act["stream"] == "stdout" else self.tty_err):
                    import io as _io
                    setattr(sys, act["stream"], _io.StringIO())
                    ev["did"].append(["hijack_stream", act["stream"]])
                    self.fire("step_replaces_" + act["stream"])
            elif a == "use_matcher":
                from behave import use_step_matcher
                use_step_matcher(act["name"])
                ev["did"].append(["use_matcher", act["name"]])
                self.fire("use_step_matcher_in_environment")
            elif a == "install_cleanup_handler":
                sim_ = self
                ret_ = act.get("returns")

                def on_cleanup_error(ctx, cleanup_func, exception, _ret=ret_):
                    sim_.fire("user_cleanup_error_handler_called")
                    return _ret
                context.on_cleanup_error = on_cleanup_error
                ev["did"].append(["install_cleanup_handler", ret_])
            elif a == "skip_container":
                # user code decides mid-run to skip (the rest of) the enclosing feature / rule
                try:
                    target = getattr(context, act["what"], None) if act["what"] in context else None
                except Exception:
                    target = None
                if target is not None:
                    target.skip(reason="because" if act.get("reason") else None)
                    ev["did"].append(["skip_container", act["what"]])
                    self.fire("skip_container_midrun")
            elif a == "execute_steps":
                self.do_execute_steps(ev, context, act)
            elif a == "autoretry":
                self.do_autoretry(ev, element)
            elif a == "root_level":
                logging.getLogger().setLevel(act["level"])
                ev["did"].append(["root_level", act["level"]])
            elif a == "advance":
                self.clock.advance(act["dt"])
            elif a == "examples_table":
                self.do_table_mutation(ev, element, act)
            elif a == "read_status":
                seen = {}
                for nm in ("feature", "rule", "scenario"):
                    try:
                        el = getattr(context, nm, None) if nm in context else None
                    except Exception:
                        el = None
                    if el is not None:
                        seen[nm] = el.status.name
                ev["did"].append(["read_status", seen])
                self.fire("status_read_mid_run")
                # ... and at the rest of the model the way reporting user code does
                try:
                    feat = getattr(context, "feature", None) if "feature" in context else None
                except Exception:
                    feat = None
                if feat is not None:
                    _ = feat.duration
                    for sc in feat.walk_scenarios(with_outlines=True):
                        _ = (sc.status, sc.duration, sc.effective_tags)
                        for st in getattr(sc, "all_steps", []):
                            _ = st.status
            elif a == "step_table":
                self.do_step_table_mutation(ev, context, act)
            else:
                raise RuntimeError("unknown action %r" % (act,))

    def do_cleanup_action(self, ev, context, act):
        self.cleanup_n += 1
        cid = "c%d" % self.cleanup_n
        info = {"cid": cid, "kind": act["kind"], "raises": act.get("raises"),
                "reg_seq": ev["seq"], "layer": act.get("layer"), "registered": False,
                "site": list(getattr(self, "_act_site", [None, None]))}
        self.cleanups[cid] = info
        sim = self
        if act.get("scoped"):
            info["scoped"] = True
            self._cleanup_ctx[cid] = context

        def make_plain():
            def cleanup_func(*args, **kwargs):
                sim.cleanup_called(cid, args, kwargs)
            cleanup_func.__name__ = "cleanup_" + cid
            return cleanup_func

        kind = act["kind"]
        try:
            if kind == "plain":
                context.add_cleanup(make_plain())
            elif kind == "args":
                context.add_cleanup(make_plain(), cid, key=cid)
            elif kind == "layer":
                context.add_cleanup(make_plain(), layer=act["layer"])
            elif kind == "fixture":
                from behave.fixture import use_fixture, fixture

                @fixture
                def gen_fixture(ctx, *a, **k):
                    sim.new_event("fixture_setup", cid=cid)
                    if act.get("setup_raises"):
                        sim.fire("fixture_setup_raises")
                        raise RuntimeError("fixture setup %s" % cid)
                    yield cid
                    sim.cleanup_called(cid, (), {})
                info["setup_raises"] = bool(act.get("setup_raises"))
                use_fixture(gen_fixture, context)
            elif kind == "fixture_nested":
                # a generator fixture whose SETUP part registers further cleanups:
                # its own teardown was registered first, so it must run last (LIFO)
                from behave.fixture import use_fixture, fixture
                inner_ids = []

                @fixture
                def inner_fixture(ctx, icid):
                    sim.new_event("fixture_setup", cid=icid)
                    yield icid
                    sim.cleanup_called(icid, (), {})

                @fixture
                def outer_fixture(ctx, *a, **k):
                    sim.new_event("fixture_setup", cid=cid)
                    for what in act.get("inner", ["plain", "fixture"]):
                        sim.cleanup_n += 1
                        icid = "c%d" % sim.cleanup_n
                        sim.cleanups[icid] = {"cid": icid, "kind": "inner-" + what, "raises": None,
                                              "reg_seq": ev["seq"], "layer": None, "registered": True}
                        if what == "plain":
                            def inner_cleanup(_icid=icid):
                                sim.cleanup_called(_icid, (), {})
                            ctx.add_cleanup(inner_cleanup)
                        else:
                            use_fixture(inner_fixture, ctx, icid)
                        ev["did"].append(["cleanup", icid, "inner-" + what, None])
                    yield cid
                    sim.cleanup_called(cid, (), {})
                ev["did"].append(["cleanup", cid, kind, None])
                info["registered"] = True
                sim.fire("fixture_nested")
                use_fixture(outer_fixture, context)
                return
            elif kind == "fixture_plain":
                from behave.fixture import use_fixture, fixture

                @fixture
                def plain_fixture(ctx, *a, **k):
                    sim.new_event("fixture_setup", cid=cid)
                    return cid
                info["no_cleanup"] = True
                use_fixture(plain_fixture, context)
            info["registered"] = True
            ev["did"].append(["cleanup", cid, kind, act.get("layer")])
        except LookupError as e:
            # layer not on the stack: legal refusal
            info["refused"] = "LookupError"
            ev["did"].append(["cleanup-refused", cid, kind, act.get("layer")])

    def cleanup_called(self, cid, args, kwargs):
        info = self.cleanups[cid]
        ev = self.new_event("cleanup", cid=cid, args=[list(args), sorted(kwargs)])
        self.stack.append(("cleanup", cid))
        try:
            self.probe(ev, None)
            if info.get("scoped") and cid in self._cleanup_ctx:
                from behave.runner import scoped_context_layer
                with scoped_context_layer(self._cleanup_ctx[cid], layer="in-cleanup"):
                    pass
                self.fire("cleanup_opens_context_layer")
            if info.get("raises"):
                self.fire("cleanup_raises")
                ev["raised"] = info["raises"]
                if info["raises"] == "AssertionError":
                    raise AssertionError("cleanup %s fails" % cid)
                if info["raises"] == "StopIteration":
                    # (e.g. a bare next() on an exhausted iterator; inside a generator fixture's
                    #  teardown Python turns it into a RuntimeError - an error all the same)
                    raise StopIteration("cleanup %s fails" % cid)
                raise Exception("cleanup %s fails" % cid)
        finally:
            self.stack.pop()

    def do_execute_steps(self, ev, context, act):
        lib = self.world["steplib"]
        import zlib
        rng = random.Random(zlib.crc32(str(ev.get("key")).encode("utf-8")) + self.world["seed"])
        defs = [d for d in lib["defs"] if d["type"] in ("given", "step") and not d.get("async")]
        lines = []
        for _ in range(act["n"]):
            if defs:
                d = rng.choice(defs)
                lines.append("Given " + W.instantiate(rng, d))
        if lines and rng.random() < 0.4:
            # the last nested step carries its own doc-string / table (the caller may have none)
            if rng.random() < 0.5:
                lines += ['  """', "  nested text %d" % rng.randint(0, 9), '  """']
            else:
                lines += ["  | n0 | n1 |", "  | x%d | y |" % rng.randint(0, 9)]
            self.fire("execute_steps_with_payload")
        if act.get("bad"):
            lines.append("Given zz-nested nothing matches")
        text = u"\n".join(lines) + u"\n"
        before = (getattr(context, "text", None), getattr(context, "table", None))
        res = None
        self.nested_fail = None
        if act.get("fail") and defs:
            # one of the nested step FUNCTIONS fails (assertion / exception), not only "no definition"
            self.nested_fail = {"n": rng.randrange(max(1, act["n"])), "kind": act["fail"]}
        try:
            self.fire("execute_steps")
            res = context.execute_steps(text)
            ev["did"].append(["execute_steps", act["n"], "ok"])
        except AssertionError:
            self.nested_fail = None
            ev["did"].append(["execute_steps", act["n"], "AssertionError"])
            after = (getattr(context, "text", None), getattr(context, "table", None))
            ev["did"].append(["text_table_same", before[0] is after[0] or before[0] == after[0],
                              before[1] is after[1]])
            raise
        self.nested_fail = None
        after = (getattr(context, "text", None), getattr(context, "table", None))
        ev["did"].append(["text_table_same", before[0] is after[0] or before[0] == after[0],
                          before[1] is after[1]])

    def do_autoretry(self, ev, feature):
        from behave.contrib.scenario_autoretry import patch_scenario_with_autoretry
        plan = self.world.get("autoretry", {})
        sim = self
        whole = set(self.world.get("autoretry_outlines") or [])
        from behave.model import ScenarioOutline
        for so in feature.walk_scenarios(with_outlines=True):
            if isinstance(so, ScenarioOutline) and self.elem_id(so) in whole and so.scenarios:
                # the documented call with the outline itself: one call patches every row
                n = plan.get(self.elem_id(so.scenarios[0]))
                for scenario in so.scenarios:
                    sid = self.elem_id(scenario)
                    orig = scenario.run

                    def counted(*a, _orig=orig, _sid=sid, **k):
                        sim.attempt[_sid] = sim.attempt.get(_sid, -1) + 1
                        sim.new_event("attempt", sid=_sid, n=sim.attempt[_sid])
                        return _orig(*a, **k)
                    scenario.run = counted
                    ev["did"].append(["autoretry", sid, n])
                patch_scenario_with_autoretry(so, max_attempts=n)
                self.fire("autoretry_patched_outline")
        for scenario in feature.walk_scenarios():
            sid = self.elem_id(scenario)
            if sid in plan and (sid.rsplit(".E", 1)[0] not in whole):
                orig = scenario.run

                def counted(*a, _orig=orig, _sid=sid, **k):
                    sim.attempt[_sid] = sim.attempt.get(_sid, -1) + 1
                    sim.new_event("attempt", sid=_sid, n=sim.attempt[_sid])
                    return _orig(*a, **k)
                scenario.run = counted
                patch_scenario_with_autoretry(scenario, max_attempts=plan[sid])
                ev["did"].append(["autoretry", sid, plan[sid]])
                self.fire("autoretry_patched")

    def do_table_mutation(self, ev, feature, act):
        """Examples-table API mutation (C06): add_row / add_column on an outline's examples table."""
        from behave.model import ScenarioOutline
        for so in feature.walk_scenarios(with_outlines=True):
            if isinstance(so, ScenarioOutline) and self.elem_id(so) == act["outline"]:
                ex = so.examples[act["e"]] if act["e"] < len(so.examples) else None
                if ex is None or ex.table is None:
                    return
                if act["what"] == "add_row":
                    ex.table.add_row(list(act["cells"]))
                    ev["did"].append(["table_add_row", act["outline"], act["e"], list(act["cells"])])
                else:
                    ex.table.add_column(act["column"], default_value=act["value"])
                    ev["did"].append(["table_add_column", act["outline"], act["e"], act["column"], act["value"]])
                self.fire("examples-table-" + act["what"])

    def do_step_table_mutation(self, ev, context, act):
        t = getattr(context, "table", None)
        if t is None:
            return
        if act["what"] == "add_row":
            t.add_row([u"MUT"] * len(t.headings))
        elif t.rows:
            t.rows[0].cells[0] = u"MUT"
        else:
            t.headings[0] = u"MUT"
        ev["did"].append(["step_table_mutated", act["what"]])
        self.fire("step-table-mutated")

    # -- outcome -----------------------------------------------------------
    def realise(self, ev, out, context=None):
        k = out["kind"]
        if k == "ok":
            return
        self.fire("outcome_" + k)
        if out.get("pre_skip") and context is not None and ev["kind"] == "step":
            try:
                context.scenario.skip(reason="then fails")
                ev["did"].append(["skip_then_fail"])
                self.fire("skip_then_fail")
            except Exception:
                pass
        if k == "kbi" and ev["kind"] == "hook":
            self.fire("interrupt_in_hook:" + ev["name"])
        if k == "assert":
            ev["raised"] = "AssertionError"
            if out.get("msg") is None:
                raise AssertionError()
            raise AssertionError(out["msg"])
        if k == "exc":
            if ":" in out["cls"]:
                mod_, nm_ = out["cls"].split(":")
                cls = getattr(__import__(mod_, fromlist=[nm_]), nm_)      # e.g. behave.exception:ConfigError
                ev["raised"] = nm_
            else:
                ev["raised"] = out["cls"]
                cls = getattr(__import__("builtins"), out["cls"])
            raise cls(out["msg"])
        if k == "notimpl":
            from behave.api.pending_step import StepNotImplementedError, PendingStepError
            ev["raised"] = "StepNotImplementedError"
            if out.get("alt"):
                raise PendingStepError(out["msg"])
            raise StepNotImplementedError(out["msg"])
        if k == "kbi":
            ev["raised"] = "KeyboardInterrupt"
            raise SimKeyboardInterrupt()
        if k == "skip":
            ev["did"].append(["skip_scenario"])
            context.scenario.skip(reason=out.get("reason"))
            return
        raise RuntimeError("unknown outcome %r" % (out,))

    # -- callbacks ---------------------------------------------------------
    def hook(self, name, context, *args):
        if name.endswith("_tag"):
            tag = str(args[0])
            eid = self.innermost_element(context)
            element = None
            try:
                if "scenario" in context:
                    element = context.scenario
                elif "rule" in context:
                    element = context.rule
                else:
                    element = context.feature
            except Exception:
                pass
        elif name.endswith("_all"):
            tag = ""
            eid = ""
            element = None
        elif name.endswith("_step"):
            tag = ""
            step = args[0]
            idx = self.step_index(context, step)
            sid = self.current_scenario_id(context)
            eid = "%s#%s" % (sid, idx if idx is not None else "n")
            element = step
        else:
            tag = ""
            element = args[0]
            eid = self.elem_id(element)
        base = "hook|%s|%s|%s" % (name, eid, tag)
        occ = self.counts.get(base, 0)
        self.counts[base] = occ + 1
        key = "%s|%d" % (base, occ)
        ev = self.new_event("hook", name=name, eid=eid, tag=tag, occ=occ, key=key)
        if element is not None and not name.endswith("_step"):
            ev["status_seen"] = None
        scen_id = self.current_scenario_id(context)
        ev["scen"] = scen_id
        self.stack.append(("hook", name))
        try:
            self.probe(ev, context)
            ent = self.script.get(key)
            if name == "before_feature" and self.world.get("autoretry"):
                self.do_autoretry(ev, element)
            if ent:
                try:
                    self.do_actions(ev, context, ent["acts"], scen_id, element)
                    self.realise(ev, ent["out"], context)
                except BaseException as e:
                    if ev["raised"] is None:
                        ev["raised"] = type(e).__name__
                        ev["raised_by_action"] = True
                    raise
        finally:
            self.clock.advance(0.01)
            self.stack.pop()

    def step(self, def_id, context, args, kwargs):
        step = self.find_step_object()
        sid = self.current_scenario_id(context)
        idx = self.step_index(context, step) if step is not None else None
        nested = self.in_step() > 0 or idx is None
        if nested:
            base = "nstep|%s|%s" % (sid, def_id)
        else:
            base = "step|%s|%d" % (sid, idx)
        occ = self.counts.get(base, 0)
        self.counts[base] = occ + 1
        att = self.attempt.get(sid, 0) if not nested else occ
        key = "%s|%d" % (base, att)
        ev = self.new_event("step", name=def_id, scen=sid, idx=idx, occ=occ, key=key,
                            att=att, args=_jsonable(args), kwargs=_jsonable(kwargs),
                            text=getattr(step, "name", None),
                            stype=getattr(step, "step_type", None),
                            ctx_text=_jsonable(getattr(context, "text", None)),
                            ctx_table=_table_jsonable(getattr(context, "table", None)))
        self.stack.append(("step", def_id))
        try:
            self.probe(ev, context)
            ent = self.script.get(key) if not nested else None
            if nested and getattr(self, "nested_fail", None) is not None:
                nf = self.nested_fail
                nf["n"] -= 1
                if nf["n"] < 0:
                    self.nested_fail = None
                    self.fire("nested_step_fails")
                    self.realise(ev, {"kind": nf["kind"], "msg": "nested step fails", "cls": "RuntimeError"}, context)
            if ent:
                try:
                    self.do_actions(ev, context, ent["acts"], sid, None)
                    self.realise(ev, ent["out"], context)
                except BaseException as e:
                    if ev["raised"] is None:
                        ev["raised"] = type(e).__name__
                        ev["raised_by_action"] = True
                    raise
        finally:
            self.clock.advance(0.05)
            self.stack.pop()

    def ensure_async_context(self, context):
        if "sim_actx" not in context:
            from behave.api.async_step import AsyncContext
            context.sim_actx = AsyncContext(loop=make_virtual_loop(self.clock), name="sim_actx", should_close=True)
            self.fire("async-context-created")

    def step_async(self, def_id, context, args, kwargs, async_wrapper):
        """Sync shim around an async step wrapped by behave's async_run_until_complete:
        records what the step function (as behave sees it) did."""
        self._async_call = (def_id, args, kwargs)
        self.fire("async-step-call")
        try:
            async_wrapper(context, *args, **kwargs)
        except AssertionError as e:
            if "TIMEOUT" in str(e):
                self.fire("async-step-timeout")
                ev = self._async_ev
                if ev is not None and ev.get("raised") is None and not ev.get("completed"):
                    # (a genuine timeout: the coroutine neither returned nor raised by itself)
                    ev["raised"] = "AssertionError"
                    ev["abandoned"] = True
                    ev["did"].append(["async_timeout"])
            raise
        finally:
            self._async_ev = None

    async def astep_body(self, def_id, context, args, kwargs):
        import asyncio
        step = None
        # (frame inspection cannot see Step.run from inside a task: use the call stack of the sync shim)
        sid = self.current_scenario_id(context)
        step = self._find_step_for_async()
        idx = self.step_index(context, step) if step is not None else None
        nested = idx is None
        base = ("nstep|%s|%s" % (sid, def_id)) if nested else ("step|%s|%d" % (sid, idx))
        occ = self.counts.get(base, 0)
        self.counts[base] = occ + 1
        att = self.attempt.get(sid, 0) if not nested else occ
        key = "%s|%d" % (base, att)
        ev = self.new_event("step", name=def_id, scen=sid, idx=idx, occ=occ, key=key, att=att,
                            args=_jsonable(args), kwargs=_jsonable(kwargs),
                            text=getattr(step, "name", None), stype=getattr(step, "step_type", None),
                            ctx_text=_jsonable(getattr(context, "text", None)),
                            ctx_table=_table_jsonable(getattr(context, "table", None)))
        ev["async"] = True
        ev["depth"] = 0 if not nested else 1
        self._async_ev = ev
        self.stack.append(("step", def_id))
        try:
            self.probe(ev, context)
            ent = self.script.get(key) if not nested else None
            plan = (ent or {}).get("async") or {}
            async def suspended(aw):
                # while the coroutine is suspended no callback is active
                self.stack.pop()
                try:
                    await aw
                finally:
                    if not ev.get("abandoned"):
                        self.stack.append(("step", def_id))
            if plan.get("spawn"):
                async def child():
                    await asyncio.sleep(plan["spawn"])
                    return 1
                await suspended(asyncio.ensure_future(child()))
                if ev.get("abandoned"):
                    return
            if plan.get("sleep"):
                await suspended(asyncio.sleep(plan["sleep"]))
                if ev.get("abandoned"):
                    return
            if ent:
                try:
                    self.do_actions(ev, context, ent["acts"], sid, None)
                    self.realise(ev, ent["out"], context)
                except BaseException as e:
                    if ev["raised"] is None:
                        ev["raised"] = type(e).__name__
                        ev["raised_by_action"] = True
                    raise
            ev["completed"] = True
        finally:
            if not ev.get("abandoned"):
                self.clock.advance(0.05)
                if self.stack and self.stack[-1] == ("step", def_id):
                    self.stack.pop()

    def _find_step_for_async(self):
        from behave.model import Step
        import sys as _sys
        # the running task was started from loop.run_until_complete(), itself called (synchronously)
        # from the sync shim under Step.run: walk the interpreter stack of the current thread
        f = _sys._getframe(1)
        depth = 0
        while f is not None and depth < 80:
            slf = f.f_locals.get("self")
            if isinstance(slf, Step) and f.f_code.co_name == "run":
                return slf
            f = f.f_back
            depth += 1
        return None

    def convert(self, type_name, text):
        self.converter_calls += 1
        if text == "BAD":
            self.fire("converter_raises")
            raise ValueError("cannot convert %r" % text)
        if text == "WORSE":
            self.fire("converter_raises_keyerror")
            raise KeyError(text)
        if text == "ASSERT":
            self.fire("converter_raises_assertion")
            raise AssertionError("converter asserts")
        if type_name == "Num":
            return int(text)
        return text.lower()

    def module_loaded(self, mid):
        self.modules_loaded.append(mid)

    def registered(self, def_id):
        self.registrations.append(def_id)


def _jsonable(v):
    if v is None or isinstance(v, (int, float, bool)):
        return v
    if isinstance(v, str):
        return str(v)
    if isinstance(v, (list, tuple)):
        return [_jsonable(x) for x in v]
    if isinstance(v, dict):
        return {str(k): _jsonable(x) for k, x in sorted(v.items())}
    return repr(v)


def _table_jsonable(t):
    if t is None:
        return None
    try:
        d = {"headings": list(t.headings), "rows": [list(r.cells) for r in t.rows]}
        # every row answers by name with the table's (current) headings
        bad = [k for k, r in enumerate(t.rows) if list(r.headings) != list(t.headings) or
               (len(r.cells) == len(t.headings) and len(set(t.headings)) == len(t.headings) and
                [r[h] for h in t.headings] != list(r.cells))]
        if bad:
            d["rows_by_name_disagree"] = bad[:3]
        return d
    except Exception:
        return repr(t)


SIM = _Sim()


# ---------------------------------------------------------------------------
# recording formatter (C15): logs every callback with the statuses visible then
# ---------------------------------------------------------------------------
def make_rec_formatter_class():
    from behave.formatter.base import Formatter

    class RecFormatter(Formatter):
        name = "rec"
        description = "simulator recording formatter"

        def __init__(self, stream_opener, config):
            super(RecFormatter, self).__init__(stream_opener, config)
            self.log = []
            SIM.recorders.append(self)
            self.stream = self.open()

        def _rec(self, cb, **kw):
            kw["cb"] = cb
            kw["seq"] = SIM.seq
            self.log.append(kw)

        def uri(self, uri):
            self._rec("uri", uri=str(uri).replace(os.sep, "/"))

        def feature(self, feature):
            self._rec("feature", id=SIM.elem_id(feature), name=feature.name)

        def rule(self, rule):
            self._rec("rule", id=SIM.elem_id(rule), name=rule.name)

        def background(self, background):
            self._rec("background", line=background.line, nsteps=len(background.steps))

        def scenario(self, scenario):
            self._rec("scenario", id=SIM.elem_id(scenario), name=scenario.name,
                      tags=[str(t) for t in scenario.tags])

        def step(self, step):
            self._rec("step", name=step.name, line=step.line, kw=step.keyword)

        def match(self, match):
            loc = getattr(match, "location", None)
            args = getattr(match, "arguments", None)
            self._rec("match", has_location=bool(loc),
                      nargs=(len(args) if args is not None else None))

        def result(self, step):
            self._rec("result", name=step.name, line=step.line, status=step.status.name)

        def eof(self):
            self._rec("eof")

        def close(self):
            self._rec("close")
            self.stream.write(u"rec: %d callbacks\n" % len(self.log))
            self.close_stream()
    return RecFormatter


# ---------------------------------------------------------------------------
# generated user code
# ---------------------------------------------------------------------------
def render_environment(world):
    lines = ["# generated by the simulator", "from sim.runtime import SIM", ""]
    for h in world["hooks"]:
        if h.endswith("_all"):
            lines += ["def %s(context):" % h, "    SIM.hook(%r, context)" % h, ""]
        else:
            lines += ["def %s(context, arg):" % h, "    SIM.hook(%r, context, arg)" % h, ""]
    return "\n".join(lines) + "\n"


def render_step_module(world, mod, mi):
    lib = world["steplib"]
    lines = ["# generated by the simulator", "from sim.runtime import SIM",
             "from behave import register_type",
             "SIM.module_loaded(%r)" % mod["id"], ""]
    lines += ["def _conv_color(text):", "    return SIM.convert('Color', text)",
              "_conv_color.pattern = r'[A-Z]+'",
              "def _conv_num(text):", "    return SIM.convert('Num', text)",
              "_conv_num.pattern = r'\\d+'",
              "register_type(Color=_conv_color, Num=_conv_num)", ""]
    cur = None
    for d in lib["defs"]:
        if d["module"] != mi:
            continue
        if d["matcher"] != cur:
            lines.append("use_step_matcher(%r)" % d["matcher"])
            cur = d["matcher"]
        pat = W.render_pattern(d)
        if d.get("async"):
            tmo = d["async"].get("timeout")
            lines.append("from behave.api.async_step import async_run_until_complete")
            if d["async"].get("actx"):
                # the documented variant with a user-created AsyncContext shared by the async steps
                # of one scenario (its own virtual-time loop, closed with the context object)
                lines.append("@async_run_until_complete(async_context='sim_actx'%s)" % (", timeout=%r" % tmo if tmo else ""))
            else:
                lines.append("@async_run_until_complete(loop=SIM.vloop%s)" % (", timeout=%r" % tmo if tmo else ""))
            lines.append("async def _a_%s(context, *args, **kwargs):" % d["id"])
            lines.append("    await SIM.astep_body(%r, context, args, kwargs)" % d["id"])
            lines.append("@%s(%r)" % (d["type"], pat))
            lines.append("def %s(context, *args, **kwargs):" % d["id"])
            if d["async"].get("actx"):
                lines.append("    SIM.ensure_async_context(context)")
            lines.append("    SIM.step_async(%r, context, args, kwargs, _a_%s)" % (d["id"], d["id"]))
            lines.append("SIM.registered(%r)" % d["id"])
            lines.append("")
            continue
        lines.append("@%s(%r)" % (d["type"], pat))
        lines.append("def %s(context, *args, **kwargs):" % d["id"])
        lines.append("    SIM.step(%r, context, args, kwargs)" % d["id"])
        lines.append("SIM.registered(%r)" % d["id"])
        lines.append("")
    return "\n".join(lines) + "\n"


# ---------------------------------------------------------------------------
# executor
# ---------------------------------------------------------------------------
class _Patches(object):
    def __init__(self):
        self.saved = []
        self.active = []

    def set(self, obj, name, value, label):
        try:
            old = getattr(obj, name)
        except AttributeError:
            return False
        self.saved.append((obj, name, old))
        setattr(obj, name, value)
        self.active.append(label)
        return True

    def undo(self):
        for obj, name, old in reversed(self.saved):
            setattr(obj, name, old)
        self.saved = []


def scratch_root():
    base = "/dev/shm" if os.path.isdir("/dev/shm") and os.access("/dev/shm", os.W_OK) \
        else os.environ.get("TMPDIR", "/tmp")
    return base


def write_world_files(world, root):
    for entry in os.listdir(root):
        p = os.path.join(root, entry)
        if os.path.isdir(p) and not os.path.islink(p):
            shutil.rmtree(p)
        else:
            os.unlink(p)
    files = dict(world["files"])
    files["features/environment.py"] = render_environment(world)
    for mi, mod in enumerate(world["steplib"]["modules"]):
        files[mod["path"]] = render_step_module(world, mod, mi)
    cfg = world["cfg"]
    ini = ["[behave]"]
    if cfg.get("tags_protocol"):
        ini.append("tag_expression_protocol = %s" % cfg["tags_protocol"])
    if cfg.get("outline_schema"):
        ini.append("scenario_outline_annotation_schema = %s" % cfg["outline_schema"])
    files["behave.ini"] = "\n".join(ini) + "\n"
    if cfg.get("listfile") and cfg.get("paths"):
        lf = cfg["listfile"]
        here = os.path.dirname(lf["path"])
        out = []
        for p in cfg["paths"]:
            if lf.get("comments"):
                out.append("# a comment")
                out.append("")
            rel = os.path.relpath(p, here) if here else p
            out.append(rel)
        files[lf["path"]] = "\n".join(out) + "\n"
    for extra, text in world.get("extra_files", {}).items():
        files[extra] = text
    if world.get("stale_rerun"):
        for name, out in cfg["formatters"]:
            if name == "rerun" and out:
                files[out] = "# stale\nfeatures/f0.feature:999\n"
    for rel, text in files.items():
        p = os.path.join(root, rel)
        os.makedirs(os.path.dirname(p), exist_ok=True)
        with io.open(p, "w", encoding="utf-8", newline="\n") as f:
            f.write(text)


_preloaded = []


def preload_behave():
    """Import every lazily loaded behave formatter module BEFORE the first run_behave().

    behave.__main__.run_behave() calls reset_runtime(), which rebinds
    behave.step_registry.registry to a new object that nobody else uses; formatter modules
    doing `from behave.step_registry import registry` (steps.code, steps.bad) bind whatever
    object is current when they are first imported.  In a real process that happens while the
    Configuration is built, i.e. before the first reset; importing them up-front gives every
    simulated run in this interpreter the same binding as a fresh process."""
    if _preloaded:
        return
    from behave.formatter import _registry as FR
    try:
        list(FR.format_items(resolved=True))
    except Exception:
        pass
    import behave.formatter.steps_code      # noqa: F401
    import behave.formatter.bad_steps       # noqa: F401
    _preloaded.append(1)


def reset_behave_globals(world):
    preload_behave()
    import behave.runner
    import behave.matchers as M
    import behave.model as model
    from behave.tag_expression.builder import TagExpressionProtocol
    behave.runner.the_step_registry.clear()
    M.get_step_matcher_factory().reset()
    try:
        M.ParseMatcher.TYPE_REGISTRY.clear()
        M.CFParseMatcher.TYPE_REGISTRY.clear()
    except Exception:
        pass
    model.ScenarioOutline.annotation_schema = model.ScenarioOutlineBuilder.annotation_schema
    model.Scenario.continue_after_failed_step = bool(world["cfg"].get("continue_after_failed"))
    try:
        TagExpressionProtocol.use(TagExpressionProtocol.DEFAULT)
    except Exception:
        pass
    # source-line cache is keyed by the (relative) file name of generated modules
    import linecache
    linecache.clearcache()
    # logging
    root = logging.getLogger()
    for h in list(root.handlers):
        root.removeHandler(h)
    root.setLevel(logging.WARNING)
    for name in list(logging.Logger.manager.loggerDict):
        lg = logging.Logger.manager.loggerDict[name]
        if isinstance(lg, logging.Logger) and name.split(".")[0] in ("foo", "baz"):
            for h in list(lg.handlers):
                lg.removeHandler(h)
            lg.setLevel(logging.NOTSET)
            lg.disabled = False
            lg.propagate = True


class PreHandler(logging.Handler):
    """A handler that was installed by 'the application' before behave ran."""
    _sim_name = "pre"

    def __init__(self):
        logging.Handler.__init__(self)
        self.records = []

    def emit(self, record):
        self.records.append(record.getMessage())


class PreStreamHandler(logging.Handler):
    """The application's own stream handler on the real stderr, installed before behave ran."""
    _sim_name = "prestream"

    def emit(self, record):
        try:
            SIM.tty_err.write(record.getMessage() + "\n")
        except Exception:
            pass


def census(runner):
    """Census of the real model objects after the run."""
    from behave.model import Rule, ScenarioOutline, Scenario
    out = []
    if runner is None:
        return out

    def step_rec(st):
        return {"kind": "step", "line": st.line, "name": st.name, "kw": st.keyword,
                "stype": st.step_type, "status": st.status.name,
                "hook_failed": bool(st.hook_failed),
                "has_error_message": bool(st.error_message),
                "error_message": st.error_message if isinstance(st.error_message, str) else None,
                "text": _jsonable(st.text) if st.text is not None else None,
                "table": _table_jsonable(st.table)}

    def scen_rec(sc, sid_fn):
        return {"kind": "scenario", "id": sid_fn(sc), "line": sc.line, "name": sc.name,
                "tags": [str(t) for t in sc.tags],
                "effective_tags": sorted(str(t) for t in sc.effective_tags),
                "status": sc.status.name, "hook_failed": bool(sc.hook_failed),
                "has_error_message": bool(sc.error_message),
                "should_skip": bool(sc.should_skip),
                "steps": [step_rec(s) for s in sc.all_steps],
                "n_own_steps": len(sc.steps),
                "captured": {"stdout": sc.captured.stdout, "stderr": sc.captured.stderr,
                             "log": sc.captured.log_output}}

    def bg_rec(bg):
        if bg is None:
            return None
        try:
            return {"line": bg.line, "steps": [st.name for st in bg.steps]}
        except Exception:
            return None

    def item_rec(it, sid_fn):
        if isinstance(it, Rule):
            return {"kind": "rule", "id": sid_fn(it), "line": it.line, "name": it.name,
                    "background": bg_rec(getattr(it, "background", None)),
                    "tags": [str(t) for t in it.tags], "status": it.status.name,
                    "hook_failed": bool(it.hook_failed),
                    "has_error_message": bool(it.error_message),
                    "should_skip": bool(it.should_skip),
                    "items": [item_rec(x, sid_fn) for x in it.run_items]}
        if isinstance(it, ScenarioOutline):
            return {"kind": "outline", "id": sid_fn(it), "line": it.line, "name": it.name,
                    "tags": [str(t) for t in it.tags], "status": it.status.name,
                    "should_skip": bool(it.should_skip),
                    "template_steps": [{"name": st.name, "text": _jsonable(st.text) if st.text is not None else None,
                                        "table": _table_jsonable(st.table)} for st in it.steps],
                    "examples": [{"name": ex.name, "tags": [str(t) for t in ex.tags],
                                  "headings": list(ex.table.headings) if ex.table is not None else None,
                                  "rows": [list(r.cells) for r in ex.table.rows] if ex.table is not None else None}
                                 for ex in it.examples],
                    "items": [scen_rec(x, sid_fn) for x in it.scenarios]}
        return scen_rec(it, sid_fn)

    for feat in runner.features:
        out.append({"kind": "feature", "id": SIM.elem_id(feat), "line": feat.line,
                    "name": feat.name, "filename": feat.filename.replace(os.sep, "/"),
                    "tags": [str(t) for t in feat.tags], "status": feat.status.name,
                    "hook_failed": bool(feat.hook_failed),
                    "has_error_message": bool(feat.error_message),
                    "should_skip": bool(feat.should_skip),
                    "has_background": feat.background is not None,
                    "background": bg_rec(feat.background),
                    "items": [item_rec(x, SIM.elem_id) for x in feat.run_items]})
    return out


def collect_artifacts(root):
    arts = {}
    for dirpath, dirnames, filenames in os.walk(root):
        dirnames.sort()
        rel = os.path.relpath(dirpath, root)
        if rel.startswith("features"):
            continue
        for fn in sorted(filenames):
            p = os.path.join(dirpath, fn)
            r = os.path.normpath(os.path.join(rel, fn)).replace(os.sep, "/")
            if r in ("behave.ini",):
                continue
            try:
                with io.open(p, "r", encoding="utf-8", errors="surrogateescape", newline="") as f:
                    arts[r] = f.read()
            except Exception as e:  # pragma: no cover
                arts[r] = "!unreadable: %r" % (e,)
    return arts


def run_world(world, root, extra_formatters=None, keep_model=False, post=None):
    """Run one world through the real behave in-process. Returns History dict."""
    import behave.model
    import behave.reporter.summary
    import behave.reporter.junit
    import behave.formatter.pretty
    import behave.formatter.rerun
    from behave.configuration import Configuration
    from behave.__main__ import run_behave
    from behave.runner import Runner
    from behave.exception import ConfigError
    from behave.exception import TagExpressionError

    SIM.reset(world)
    clock = SimClock(world["dims"].get("clock", "steady"), world["seed"])
    SIM.clock = clock
    write_world_files(world, root)
    if any(d.get("async") for d in world["steplib"]["defs"]):
        SIM.vloop = make_virtual_loop(clock)
    old_cwd = os.getcwd()
    old_env = dict(os.environ)
    old_stdout, old_stderr = sys.stdout, sys.stderr
    old_path = list(sys.path)
    patches = _Patches()
    hist = {"rc": None, "escaped": None, "events": None}
    tty_out = SimTTY("stdout", SIM, isatty=bool(world["cfg"].get("isatty")))
    tty_err = SimTTY("stderr", SIM)
    SIM.tty_out, SIM.tty_err = tty_out, tty_err

    class SimRunner(Runner):
        def __init__(self, config):
            super(SimRunner, self).__init__(config)
            SIM.runner = self

    try:
        os.chdir(root)
        os.environ["HOME"] = root
        for v in ("BEHAVE_COLOR", "BEHAVE_STAGE", "BEHAVE_STRIP_STEPS_WITH_TRAILING_COLON"):
            os.environ.pop(v, None)
        os.environ["COLUMNS"] = "80"
        reset_behave_globals(world)
        if any(f[0] == "rec" for f in world["cfg"]["formatters"]):
            from behave.formatter import _registry as _freg
            _freg.register_as("rec", make_rec_formatter_class())
        pre = None
        if world["cfg"].get("pre_handler"):
            pre = PreHandler()
            logging.getLogger().addHandler(pre)
            if world["cfg"]["pre_handler"] == 2:
                logging.getLogger().addHandler(PreStreamHandler())
        warnings.simplefilter("ignore")
        patches.set(behave.model, "time", SimTimeModule(clock), "model.time")
        patches.set(behave.reporter.summary, "time_now", clock.time, "summary.time_now")
        patches.set(behave.reporter.junit, "datetime", SimDateTime(clock), "junit.datetime")
        patches.set(behave.reporter.junit, "gethostname", lambda: "simhost", "junit.gethostname")
        patches.set(behave.formatter.pretty, "get_terminal_size", lambda: (80, 24), "pretty.termsize")
        patches.set(behave.formatter.rerun, "datetime", SimDateTime(clock), "rerun.datetime")
        hist["seams_active"] = list(patches.active)
        sys.stdout, sys.stderr = tty_out, tty_err
        argv = W.build_argv(world)
        hist["argv"] = argv
        try:
            config = Configuration(argv)
            if extra_formatters:
                extra_formatters(config)
            import signal
            armed = False
            try:
                # liveness watchdog (real time, generous: a simulated run takes milliseconds; every
                # wait inside it is virtual).  Not a source of nondeterminism for terminating runs.
                try:
                    signal.signal(signal.SIGALRM, _on_watchdog)
                    signal.setitimer(signal.ITIMER_REAL, _watchdog_seconds())
                    armed = True
                except (ValueError, AttributeError, OSError):
                    pass
                hist["rc"] = run_behave(config, runner_class=SimRunner)
            finally:
                if armed:
                    signal.setitimer(signal.ITIMER_REAL, 0)
                if post is not None and SIM.runner is not None:
                    try:
                        hist["post"] = post(SIM.runner, config)
                    except Exception as e:      # the post-probe itself must not mask the run
                        hist["post_error"] = "%s: %s" % (type(e).__name__, e)
        except (ConfigError, TagExpressionError) as e:
            hist["rc"] = 1
            if any(ev_.get("raised") == type(e).__name__ for ev_ in SIM.events):
                # raised by a scripted callback (a hook may raise any exception class), not by the
                # configuration: it escaped the runner
                tb = traceback.extract_tb(e.__traceback__)
                frames = [(os.path.relpath(f.filename, os.environ.get("VERIF_REPO", "/repo"))
                           if "behave" in f.filename else f.filename, f.name, f.lineno) for f in tb]
                hist["escaped"] = {"type": type(e).__name__, "msg": str(e)[:300], "frames": frames[-12:]}
            else:
                hist["config_error"] = "%s: %s" % (type(e).__name__, e)
        except SystemExit as e:
            hist["rc"] = e.code if isinstance(e.code, int) else 1
            hist["system_exit"] = True
            hist["config_error"] = "SystemExit(%r)" % (e.code,)
        except BaseException as e:  # escaped exception
            tb = traceback.extract_tb(e.__traceback__)
            frames = [(os.path.relpath(f.filename, os.environ.get("VERIF_REPO", "/repo"))
                       if "behave" in f.filename else f.filename, f.name, f.lineno)
                      for f in tb]
            hist["escaped"] = {"type": type(e).__name__, "msg": str(e)[:300],
                               "frames": frames[-12:]}
            hist["rc"] = 1
    finally:
        hist["std_after"] = [sys.stdout is tty_out, sys.stderr is tty_err]
        sys.stdout, sys.stderr = old_stdout, old_stderr
        patches.undo()
        os.chdir(old_cwd)
        os.environ.clear()
        os.environ.update(old_env)
        sys.path[:] = old_path
        hist["stdout_restored"] = True
    if SIM.vloop is not None:
        hist["async_virtual_seconds"] = SIM.vloop.virtual_seconds
        hist["async_clock_jumps"] = SIM.vloop.jumps
        try:
            for t in __import__("asyncio").all_tasks(SIM.vloop):
                t.cancel()
            SIM.vloop.run_until_complete(__import__("asyncio").sleep(0))
        except Exception:
            pass
        try:
            SIM.vloop.close()
        except Exception:
            pass
        SIM.vloop = None
    hist["events"] = SIM.events
    try:
        hist["census"] = census(SIM.runner)
    except Exception as e:
        # reading the model after the run goes through behave code (e.g. ScenarioOutline.scenarios
        # builds the rows if nothing built them before): an exception there escaped behave as well
        hist["census"] = []
        tb = traceback.extract_tb(e.__traceback__)
        frames = [(os.path.relpath(f.filename, os.environ.get("VERIF_REPO", "/repo"))
                   if "behave" in f.filename else f.filename, f.name, f.lineno) for f in tb]
        if any((fn.startswith("behave/") or "/behave/" in fn) for fn, _n, _l in frames):
            if not hist.get("escaped"):
                hist["escaped"] = {"type": type(e).__name__, "msg": str(e)[:300], "frames": frames[-12:],
                                   "while": "reading the model after the run"}
        else:
            raise
    runner = SIM.runner
    hist["runner_state"] = None
    if runner is not None:
        hist["runner_state"] = {
            "aborted": bool(runner.aborted) if runner.context else False,
            "hook_failures": runner.hook_failures,
            "undefined": len(runner.undefined_steps),
        }
    hist["artifacts"] = collect_artifacts(root)
    hist["tty_out"] = tty_out.chunks
    hist["tty_err"] = tty_err.chunks
    hist["markers"] = SIM.markers
    hist["cleanups"] = SIM.cleanups
    hist["modules_loaded"] = SIM.modules_loaded
    hist["registrations"] = SIM.registrations
    hist["fired"] = dict(SIM.fired)
    hist["sim_seconds"] = clock.elapsed()
    hist["clock_jumps"] = clock.jumps
    hist["rec_logs"] = [r.log for r in SIM.recorders]
    if keep_model:
        hist["_runner"] = runner
    # post-run logging state (C18)
    root_logger = logging.getLogger()
    hist["root_handlers_after"] = [type(h).__name__ for h in root_logger.handlers]
    SIM.runner = None
    return hist


def history_digest(hist):
    """Stable digest of a history (excludes durations, addresses, traceback text)."""
    import hashlib
    slim = {"rc": hist["rc"], "escaped": (hist["escaped"] or {}).get("type"),
            "events": [[e["seq"], e["kind"], e.get("name"), e.get("eid"), e.get("tag"),
                        e.get("scen"), e.get("idx"), e.get("raised"), e["depth"],
                        e.get("cid"), e["did"]] for e in hist["events"]],
            "census": _strip_census(hist["census"]),
            "artifacts": sorted(hist["artifacts"].keys()),
            "tty": [len(hist["tty_out"]), len(hist["tty_err"])]}
    blob = json.dumps(slim, sort_keys=True, ensure_ascii=True, default=repr)
    return hashlib.sha1(blob.encode("ascii")).hexdigest()


def _strip_census(c):
    if isinstance(c, list):
        return [_strip_census(x) for x in c]
    if isinstance(c, dict):
        return {k: _strip_census(v) for k, v in c.items()
                if k not in ("error_message", "captured")}
    return c
