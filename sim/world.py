# -*- coding: utf-8 -*-
"""World generation and rendering for the run-sim engine.

A *world* is an explicit JSON-serialisable value: feature trees, a step
library, the environment script (what every callback does), the command line
configuration, and bookkeeping maps produced by the renderer (line numbers).
Everything is derived from ONE integer through ``random.Random(seed)``.
"""
from __future__ import annotations

import json
import os
import random

TAG_POOL = ["a", "b", "c", "d", "wip", "slow", "setup", "teardown",
            "always", "skip", "xfail", "t.x", "k=v", "small", "install", "t.x.y",
            "android", "sensor", "notify",      # (names that CONTAIN the words and / or / not)
            "bug#12", "cov100%"]                # ('#' and '%' inside a tag are part of the tag)
PLAIN_TAGS = ["a", "b", "c", "d", "slow", "always", "skip", "xfail", "t.x", "k=v", "small", "install", "t.x.y",
              "android", "sensor", "notify", "bug#12", "cov100%"]
HOOK_NAMES = ["before_all", "after_all", "before_feature", "after_feature",
              "before_rule", "after_rule", "before_scenario", "after_scenario",
              "before_step", "after_step", "before_tag", "after_tag"]
STEP_KW = {"given": "Given", "when": "When", "then": "Then"}
ATTR_NAMES = ["va", "vb", "vc"]

HOSTILE = [u"<", u">", u"&", u"\"", u"'", u"]]>", u"\x01", u"\x0b", u"\x1b[31m",
           u"\x7f", u"\x85", u"é", u"€", u"\U0001f600", u"￾",
           u"<![CDATA[", u"&amp;", u"\t", u"\x00", u"\x1f", u"]]", u"]]\x1b[0m>", u"]\x1b[1m]>"]


# characters for the text of undefined steps: none of them is a line boundary for str.splitlines()
UNDEF_HOSTILE = [u"\x01", u"\x07", u"\x1b[31m", u"\x7f", u"\ufffe", u"<", u"&", u"\"", u"]]>"]


# ---------------------------------------------------------------------------
# tag expressions (model-owned AST)
# ---------------------------------------------------------------------------
def gen_tagexpr(rng, tags, depth=0):
    r = rng.random()
    if depth >= 2 or r < 0.45:
        t = rng.choice(tags)
        if rng.random() < 0.08:
            # wildcard forms: prefix*, one-character '?', character class
            r_ = rng.random()
            if r_ < 0.6 or len(t) < 2:
                return ["glob", t[0] + "*"]
            if r_ < 0.8:
                return ["glob", t[:-1] + "?"]
            return ["glob", "[%sz]%s" % (t[0], t[1:])]
        return ["tag", t]
    if r < 0.62:
        return ["not", gen_tagexpr(rng, tags, depth + 1)]
    op = "and" if r < 0.81 else "or"
    return [op, gen_tagexpr(rng, tags, depth + 1), gen_tagexpr(rng, tags, depth + 1)]


def eval_tagexpr(ast, tags):
    import fnmatch
    k = ast[0]
    if k == "tag":
        return ast[1] in tags
    if k == "glob":
        return any(fnmatch.fnmatchcase(t, ast[1]) for t in tags)
    if k == "not":
        return not eval_tagexpr(ast[1], tags)
    if k == "and":
        return eval_tagexpr(ast[1], tags) and eval_tagexpr(ast[2], tags)
    if k == "or":
        return eval_tagexpr(ast[1], tags) or eval_tagexpr(ast[2], tags)
    if k == "true":
        return True
    raise ValueError(ast)


def render_tagexpr(ast, at=False, top=True):
    k = ast[0]
    pre = "@" if at else ""
    if k in ("tag", "glob"):
        return pre + ast[1]
    if k == "not":
        inner = render_tagexpr(ast[1], at, False)
        return "not " + inner
    s = "%s %s %s" % (render_tagexpr(ast[1], at, False), k,
                      render_tagexpr(ast[2], at, False))
    return s if top else "(" + s + ")"


def tagexpr_is_cnf(ast):
    """CNF in the v1 sense: AND of (OR of possibly negated plain tags)."""
    def lit(a):
        return a[0] == "tag" or (a[0] == "not" and a[1][0] == "tag")

    def clause(a):
        if lit(a):
            return True
        return a[0] == "or" and clause(a[1]) and clause(a[2])

    def cnf(a):
        if clause(a):
            return True
        return a[0] == "and" and cnf(a[1]) and cnf(a[2])
    return cnf(ast)


def render_tagexpr_v1(ast, rng=None):
    """List of --tags arguments in v1 syntax (requires tagexpr_is_cnf).
    With an rng every literal draws its own spelling: tag / @tag and
    -tag / ~tag / -@tag / ~@tag (all documented v1 forms)."""
    def lits(a):
        if a[0] == "or":
            return lits(a[1]) + lits(a[2])
        if a[0] == "not":
            return [(rng.choice(["-", "~", "-@", "~@"]) if rng else "-") + a[1][1]]
        return [(rng.choice(["", "@"]) if rng else "") + a[1]]

    def clauses(a):
        if a[0] == "and":
            return clauses(a[1]) + clauses(a[2])
        return [",".join(lits(a))]
    return clauses(ast)


# ---------------------------------------------------------------------------
# step library
# ---------------------------------------------------------------------------
FIELD_TYPES = ["d", "w", "f", "", "Color", "Num"]
COLORS = ["RED", "GREEN", "BLUE"]
BASE_RX = {"d": r"\d+", "f": r"\d+\.\d+", "Color": r"[A-Z]+", "Num": r"\d+"}


def tok_card(tok):
    """cfparse cardinality of a field token: '' | '+' | '?' | '*'."""
    return tok[3] if tok[0] == "fld" and len(tok) > 3 else ""


def gen_field_value(rng, tok):
    card = tok_card(tok)
    if not card:
        return gen_value(rng, tok[2])
    if card == "?":
        return gen_value(rng, tok[2]) if rng.random() < 0.6 else ""
    n = rng.randint(1, 3) if card == "+" else rng.randint(0, 2)
    out = ""
    for k in range(n):
        if k:
            out += rng.choice([",", ", ", " , "])
        out += gen_value(rng, tok[2])
    return out


def gen_value(rng, ftype):
    if ftype in ("d", "Num"):
        return str(rng.randint(1, 999))
    if ftype == "f":
        return "%d.%d" % (rng.randint(0, 99), rng.randint(0, 99))
    if ftype == "Color":
        # BAD: the converter raises ValueError; WORSE: it raises KeyError (any exception is a conversion error)
        return rng.choice(COLORS + ["BAD", "WORSE", "ASSERT"] if rng.random() < 0.15 else COLORS)
    if ftype == "w":
        return "".join(rng.choice("ABCDEFGH") for _ in range(rng.randint(1, 4)))
    n = rng.randint(1, 2)
    return " ".join("".join(rng.choice("KLMNOP") for _ in range(rng.randint(1, 3)))
                    for _ in range(n))


def convert_value(ftype, text, matcher, card=""):
    if card == "?":
        return None if text == "" else convert_value(ftype, text, matcher)
    if card in ("+", "*"):
        return [convert_value(ftype, x.strip(), matcher) for x in text.split(",")] if text != "" else []
    if matcher == "re":
        return text
    if ftype in ("d", "Num"):
        return int(text)
    if ftype == "f":
        return float(text)
    if ftype == "Color":
        return text.lower()
    return text


def render_pattern(d):
    parts = []
    for tok in d["tokens"]:
        if tok[0] == "lit":
            parts.append(tok[1])
            continue
        if tok[0] == "opt":
            _, name, ftype, lit = tok
            rx = {"d": r"\d+", "f": r"\d+\.\d+", "w": r"[A-H]+", "": r"[K-P]+", "Color": r"[A-Z]+"}[ftype]
            grp = "(?P<%s>%s)" % (name, rx) if name else "(%s)" % rx
            # the optional part swallows its own leading blank: attach to the previous token
            parts[-1] = parts[-1] + "(?: %s %s)?" % (lit, grp)
            continue
        name, ftype = tok[1], tok[2]
        if d["matcher"] == "cuke":
            parts.append({"d": "{int}", "f": "{float}", "w": "{word}"}[ftype])
            continue
        if d["matcher"] == "re":
            rx = {"d": r"\d+", "f": r"\d+\.\d+", "w": r"[A-H]+",
                  "": r"[K-P ]+", "Color": r"[A-Z]+"}[ftype]
            parts.append("(?P<%s>%s)" % (name, rx) if name else "(%s)" % rx)
        else:
            spec = ":" + ftype + tok_card(tok) if ftype else ""
            parts.append("{%s%s}" % (name or "", spec))
    return " ".join(parts)


def def_regex(d):
    """The MODEL's own anchored regex for a definition (independent of parse)."""
    import re
    parts = []
    for tok in d["tokens"]:
        if tok[0] == "lit":
            parts.append(re.escape(tok[1]))
        elif tok[0] == "opt":
            rx = {"d": r"\d+", "f": r"\d+\.\d+", "w": r"[A-H]+", "": r"[K-P]+", "Color": r"[A-Z]+"}[tok[2]]
            parts[-1] = parts[-1] + "(?: %s (%s))?" % (re.escape(tok[3]), rx)
        else:
            ftype = tok[2]
            if d["matcher"] == "cuke":
                # cucumber expressions: {int}, {float} (also takes an integer), {word} (no blanks)
                rx = {"d": r"-?\d+", "f": r"[-+]?\d*\.?\d+", "w": r"[^\s]+"}[ftype]
            elif d["matcher"] == "re":
                rx = {"d": r"\d+", "f": r"\d+\.\d+", "w": r"[A-H]+", "": r"[K-P ]+", "Color": r"[A-Z]+"}[ftype]
            else:
                # documented parse semantics: an untyped field takes any text (non-greedy)
                rx = {"d": r"\d+", "f": r"\d+\.\d+", "w": r"\w+", "": r".+?", "Color": r"[A-Z]+", "Num": r"\d+"}[ftype]
                card = tok_card(tok)
                if card:
                    # documented cfparse cardinality: '?' zero or one, '+' one or more, '*' zero or more,
                    # many = items separated by a comma with optional blanks around it
                    many = r"(?:%s)(?:\s*,\s*(?:%s))*" % (rx, rx)
                    rx = {"?": "(?:%s)?" % rx, "+": many, "*": "(?:%s)?" % many}[card]
            parts.append("(" + rx + ")")
    return re.compile("^" + " ".join(parts) + "$")


def gen_steplib(rng, size):
    """size: 'small' | 'rich'."""
    ndefs = rng.randint(4, 7) if size == "small" else rng.randint(7, 12)
    nmods = 1 if size == "small" and rng.random() < 0.6 else rng.randint(1, 3)
    subdir = rng.random() < 0.25
    defs = []
    for i in range(ndefs):
        dtype = rng.choice(["given", "when", "then", "step", "step"])
        matcher = "parse"
        if size == "rich":
            matcher = rng.choice(["parse", "parse", "cfparse", "re"])
        toks = [["lit", "w%d" % i]]
        nf = rng.choice([0, 0, 1, 1, 2]) if size == "rich" else rng.choice([0, 0, 1])
        for j in range(nf):
            toks.append(["lit", rng.choice(["takes", "with", "has", "of"])])
            ftype = rng.choice(FIELD_TYPES)
            if matcher == "re" and ftype in ("Color", "Num"):
                ftype = "w"
            named = rng.random() < 0.7
            tok = ["fld", ("p%d" % j) if named else "", ftype]
            if matcher == "cfparse" and ftype in ("Color", "Num") and rng.random() < 0.6:
                tok.append(rng.choice(["+", "+", "?", "*"]))
            toks.append(tok)
        if matcher == "re" and rng.random() < 0.5:
            # optional regex group(s); an anonymous optional group before another anonymous group
            # makes positional order observable
            toks.append(["opt", "" if rng.random() < 0.6 else "q0", rng.choice(["d", "w"]), "maybe"])
            if rng.random() < 0.6:
                toks.append(["lit", "then"])
                toks.append(["fld", "" if rng.random() < 0.7 else "p9", rng.choice(["d", "w"])])
        if rng.random() < 0.5 or tok_card(toks[-1]) in ("?", "*"):
            # (a field that may be empty is never last: the parser strips the step text)
            toks.append(["lit", rng.choice(["units", "done", "ok"])])
        defs.append({"id": "d%d" % i, "type": dtype, "matcher": matcher,
                     "tokens": toks, "module": rng.randrange(nmods),
                     "async": False})
    # deliberate overlap: a generic catch-all behind a type-specific one
    if size == "rich" and rng.random() < 0.6:
        base = rng.choice(defs)
        if base["type"] != "step" and not any(t[0] == "opt" for t in base["tokens"]):
            toks = []
            for tok in base["tokens"]:
                toks.append(list(tok))
            # generalise: last literal (not the head word) becomes a field
            lits = [k for k, t in enumerate(toks) if t[0] == "lit" and k > 0]
            if lits:
                k = rng.choice(lits)
                toks[k] = ["fld", "g%d" % k, ""]
                defs.append({"id": "d%d" % len(defs), "type": "step",
                             "matcher": base["matcher"] if base["matcher"] != "re" else "parse",
                             "tokens": toks, "module": base["module"],
                             "async": False})
    if size == "rich" and rng.random() < 0.0:
        pass
    modules = []
    for m in range(nmods):
        sub = "sub/" if (subdir and m == nmods - 1 and nmods > 1) else ""
        modules.append({"id": "m%d" % m, "path": "features/steps/%ssteps_%d.py" % (sub, m)})
    return {"defs": defs, "modules": modules}


def instantiate(rng, d, placeholder=None):
    parts = []
    used = False
    for tok in d["tokens"]:
        if tok[0] == "lit":
            parts.append(tok[1])
        elif tok[0] == "opt":
            if rng.random() < 0.5:
                parts.append(tok[3])
                parts.append(gen_value(rng, tok[2]).replace(" ", ""))
        elif placeholder and not used and tok[2] == "" and d["matcher"] != "re":
            parts.append("<%s>" % placeholder)
            used = True
        else:
            parts.append(gen_field_value(rng, tok))
    return " ".join(parts)


# ---------------------------------------------------------------------------
# feature trees
# ---------------------------------------------------------------------------
def gen_tags(rng, pool, p=0.35, maxn=3):
    tags = []
    while len(tags) < maxn and rng.random() < p:
        t = rng.choice(pool)
        if t not in tags:
            tags.append(t)
    return tags


def gen_step(rng, lib, last_type, first, opts):
    """Returns (step, new_last_type)."""
    defs = lib["defs"]
    if first or rng.random() < 0.55:
        stype = rng.choice(["given", "when", "then"])
        kw = STEP_KW[stype]
    else:
        stype = last_type
        kw = rng.choice(["And", "But", "*"])
    cands = [d for d in defs if d["type"] in (stype, "step")]
    undefined = rng.random() < opts["p_undefined"] or not cands
    if undefined:
        text = "zz%d nothing matches this" % rng.randint(0, 99)
        if opts.get("hostile_undefined") and rng.random() < 0.5:
            # (seeded change R11C-C16-b) XML-illegal characters in the text of an UNDEFINED step
            text = text.replace("matches", "".join(rng.choice(UNDEF_HOSTILE) for _ in range(rng.randint(1, 2))) + " matches")
        did = None
    else:
        d = rng.choice(cands)
        text = instantiate(rng, d)
        did = d["id"]
    step = {"kw": kw, "type": stype, "text": text, "def": did}
    r = rng.random()
    if r < opts["p_doc"]:
        lines = ["line %d" % rng.randint(0, 9) for _ in range(rng.randint(1, 3))]
        if rng.random() < 0.3:
            lines.append("")
            lines.append("  indented | pipe")
        if rng.random() < 0.25:
            lines.append(rng.choice(["Given a line that looks like a step", "@looks-like-a-tag", "| looks | like | a | table |",
                                     "Scenario: looks like a header", "# looks like a comment"]))
        if rng.random() < 0.2:
            lines.append("")        # the doc-string ends in an empty line (text ends with a newline)
        step["doc"] = "\n".join(lines)
        if rng.random() < 0.3:
            step["doc_quote"] = "'''"
        if rng.random() < 0.12:
            # a step may carry BOTH a doc-string and (after it) a table
            step["table"] = {"headings": ["d0", "d1"], "rows": [["x%d" % rng.randint(0, 9), "y"]]}
    elif r < opts["p_doc"] + opts["p_table"]:
        nc = rng.randint(1, 3)
        step["table"] = {"headings": ["h%d" % c for c in range(nc)],
                         "rows": [[("c%d|%d" if rng.random() < 0.1 else "c%d%d") % (rr, c) for c in range(nc)]
                                  for rr in range(rng.randint(0, 2))]}
    return step, stype


def gen_steps(rng, lib, n, opts):
    steps = []
    last = None
    for i in range(n):
        st, last = gen_step(rng, lib, last, i == 0, opts)
        steps.append(st)
    return steps


NAME_HOSTILE = [u"<", u">", u"&", u"\"", u"'", u"]]>", u"é", u"€", u"\U0001f600", u"<![CDATA[", u"&amp;", u"<b>"]


NAME_CTRL = [u"\x01", u"\x07", u"\x1b[31m", u"\x7f", u"\ufffe", u"\x9b"]     # (no line boundary of str.splitlines() among them)


def hostile_suffix(rng, opts):
    if opts.get("hostile_names") and rng.random() < 0.5:
        pool = NAME_HOSTILE + NAME_CTRL if opts.get("hostile_ctrl_names") else NAME_HOSTILE
        return " " + "".join(rng.choice(pool) for _ in range(rng.randint(1, 3))) + " q"
    return ""


def gen_scenario(rng, lib, sid, opts):
    n = rng.randint(opts["min_steps"], opts["max_steps"])
    return {"kind": "scenario", "id": sid,
            "name": "" if rng.random() < 0.03 else
            "sc %s %s%s" % (sid, rng.choice(["alpha", "beta", "gamma", '"alpha"', "alphabet"]), hostile_suffix(rng, opts)),
            "tags": gen_tags(rng, opts["tag_pool"], opts["p_tag"]),
            "steps": gen_steps(rng, lib, n, opts),
            "kwd": rng.choice(["Scenario", "Scenario", "Example"])}


def gen_outline(rng, lib, sid, opts):
    n = rng.randint(max(1, opts["min_steps"]), opts["max_steps"])
    steps = gen_steps(rng, lib, n, opts)
    cols = ["cx", "cy"][:rng.randint(1, 2)]
    if rng.random() < 0.15:
        cols.append("cxy")      # a column name that extends another one
    r_ = rng.random()
    if r_ < 0.05:
        cols[0] = "c-z"         # a column name that is no identifier
    elif r_ < 0.08:
        cols[0] = rng.choice(["row.id", "examples.name"])      # a column named like a special placeholder: the column wins
    # put placeholders into some step texts: replace one value token by <col>
    # keeps things simple: a placeholder replaces the *whole* text of an
    # undefined step or is appended to a doc-string / table cell
    by_id = {d["id"]: d for d in lib["defs"]}
    for st in steps:
        d = by_id.get(st.get("def"))
        if d is not None and rng.random() < opts.get("p_step_placeholder", 0.3) and \
                any(t[0] == "fld" and t[2] == "" for t in d["tokens"]) and d["matcher"] != "re":
            # (also the documented special placeholders of the row: <row.id>, <examples.name>, ...)
            ph = rng.choice(cols) if rng.random() < 0.85 else rng.choice(["row.id", "examples.name", "row.index", "examples.index"])
            st["text"] = instantiate(rng, d, placeholder=ph)
        if st.get("doc") is not None and rng.random() < 0.5:
            tail = "\n" if st["doc"].endswith("\n") else ""     # keep a final empty line final
            st["doc"] = st["doc"][:len(st["doc"]) - len(tail)] + \
                ("\nvalue <%s>" if rng.random() < 0.7 else "\n5 > 3 and <%s>") % rng.choice(cols) + tail
        if st.get("table") and rng.random() < 0.15:
            st["table"]["headings"][-1] = "h<%s>" % rng.choice(cols)      # a placeholder in a HEADING cell
        if st.get("table") and st["table"]["rows"] and rng.random() < 0.5:
            st["table"]["rows"][0][0] = "<%s>" % rng.choice(cols)
    examples = []
    for e in range(rng.randint(1, 2)):
        ecols = list(cols)
        if rng.random() < 0.3:
            ecols.reverse()
        nrows = rng.choice([0, 1, 1, 2, 2, 3]) if opts.get("empty_examples", True) else rng.randint(1, 3)
        if rng.random() < 0.04:
            nrows = rng.randint(10, 12)     # two-digit row ids
        rows = [[rng.choice(["v%d" % rng.randint(0, 9), "", u"ü%d" % rng.randint(0, 9), "cx", "w w"])
                 for _ in ecols] for _ in range(nrows)]
        examples.append({"name": rng.choice(["", "ex%d" % e, "ex%d" % e, "ex%d for <%s>" % (e, ecols[0])]),
                         "tags": gen_tags(rng, opts["tag_pool"], opts["p_tag"] * 0.8, 2),
                         "headings": ecols, "rows": rows,
                         "kwd": rng.choice(["Examples", "Examples", "Scenarios"])})
    if opts.get("allow_no_examples") and rng.random() < 0.06:
        examples = []           # an outline without any Examples section
    elif not opts.get("allow_empty_outline") and not any(ex["rows"] for ex in examples):
        examples[0]["rows"] = [["v%d" % rng.randint(0, 9) for _ in examples[0]["headings"]]]
    if opts.get("allow_no_table_examples") and rng.random() < 0.08:
        # an Examples block that is the keyword line only, in front of the real ones (it still counts
        # in the numbering of the blocks)
        examples.insert(0, {"name": "bare", "tags": [], "headings": list(cols), "rows": [],
                            "kwd": "Examples", "no_table": True})
    tags = gen_tags(rng, opts["tag_pool"], opts["p_tag"])
    if rng.random() < 0.2:
        tags.append("p_<%s>" % cols[0])
        # a tag cannot hold blanks: keep the cells of that column tag-safe
        for ex in examples:
            ci = ex["headings"].index(cols[0])
            for row in ex["rows"]:
                row[ci] = "t%d" % rng.randint(0, 9)
                if rng.random() < 0.1 and "p_t3" not in tags:
                    tags.insert(len(tags) - 1, "p_t3")     # a literal tag (in front) that the parametrised one also renders to for some row
                    row[ci] = "t3"
                elif rng.random() < 0.3:
                    # cells that are NOT tag-safe: the documented translation applies to the rendered tag
                    # (alnum and ._-=:,;() kept, blanks become '_', everything else is dropped)
                    row[ci] = rng.choice(["a/b%d", "x?y%d", "q[%d]", "w w%d", "c^%d", "m@n%d", u"ü-%d", "k\\%d"]) % rng.randint(0, 9)
    if rng.random() < 0.12:
        tags.append(rng.choice(["i_<row.id>", "n_<examples.name>", "e<examples.index>r<row.index>"]))
    name = "ol %s" % sid
    if rng.random() < 0.5:
        name += (" <%s>" if rng.random() < 0.8 else " > 5 for <%s>") % rng.choice(cols)
    mut = None
    if opts.get("table_mutation") and rng.random() < 0.5:
        e = rng.randrange(len(examples))
        if rng.random() < 0.6:
            mut = {"what": "add_row", "e": e, "cells": ["n%d" % rng.randint(0, 9) for _ in examples[e]["headings"]]}
        else:
            # a column that exists only after table.add_column(): references to it must be
            # substituted in the rebuilt expansion
            mut = {"what": "add_column", "e": e, "column": "cz", "value": "z%d" % rng.randint(0, 9)}
            r = rng.random()
            if r < 0.5:
                name += " <cz>"
            elif steps:
                st = rng.choice(steps)
                st["doc"] = (st.get("doc") or "line x") + "\nnew <cz>"
                st.pop("table", None)
    return {"kind": "outline", "id": sid, "name": name, "tags": tags, "_mut": mut,
            "steps": steps, "examples": examples,
            "kwd": rng.choice(["Scenario Outline", "Scenario Outline", "Scenario Template"])}


def gen_background(rng, lib, opts):
    if rng.random() >= opts["p_background"]:
        return None
    o2 = dict(opts)
    o2["p_undefined"] = opts["p_undefined"] * 0.3
    steps = gen_steps(rng, lib, rng.randint(1, 2), o2)
    if rng.random() < opts.get("p_bg_placeholder", 0.12):
        # a parametrised background step: outline rows in scope get it with the row's cell,
        # plain scenarios with the literal text
        by_id = {d["id"]: d for d in lib["defs"]}
        st = rng.choice(steps)
        d = by_id.get(st.get("def"))
        if d is not None and d["matcher"] != "re" and any(t[0] == "fld" and t[2] == "" for t in d["tokens"]):
            st["text"] = instantiate(rng, d, placeholder="cx")
        elif st.get("doc") is not None:
            st["doc"] = "bg value <cx>\n" + st["doc"]
        elif st.get("table") and st["table"]["rows"]:
            st["table"]["rows"][0][0] = "b<cx>"
        else:
            st["doc"] = "bg value <cx>"
    return {"steps": steps}


def gen_items(rng, lib, prefix, n, opts, allow_rules):
    items = []
    kinds = []
    for i in range(n):
        r = rng.random()
        kinds.append("rule" if (allow_rules and r < opts["p_rule"]) else
                     ("outline" if r < opts["p_rule"] + opts["p_outline"] else "scenario"))
    # Gherkin: once a Rule starts, everything after it belongs to a rule
    kinds.sort(key=lambda k: k == "rule")
    for i in range(n):
        r = {"rule": 0.0, "outline": opts["p_rule"], "scenario": 1.0}[kinds[i]]
        if allow_rules and kinds[i] == "rule":
            rid = "%s.R%d" % (prefix, i)
            rule = {"kind": "rule", "id": rid, "name": "rule %s" % rid,
                    "tags": gen_tags(rng, opts["tag_pool"], opts["p_tag"]),
                    "background": gen_background(rng, lib, opts),
                    "items": gen_items(rng, lib, rid, rng.randint(1, opts["max_items"]), opts, False)}
            items.append(rule)
        elif r < opts["p_rule"] + opts["p_outline"]:
            items.append(gen_outline(rng, lib, "%s.O%d" % (prefix, i), opts))
        else:
            items.append(gen_scenario(rng, lib, "%s.S%d" % (prefix, i), opts))
    return items


def gen_feature(rng, lib, fi, opts):
    fid = "F%d" % fi
    sub = rng.choice(["", "", "", "", "area/", "my area/", "v1.2/"])
    fname = rng.choice(["f%d.feature"] * 17 + ["f %d.feature", "f %d.feature", "f.%d.feature"])
    feat = {"id": fid, "path": "features/%s%s" % (sub, fname % fi),
            "name": "feat %s%s" % (fid, hostile_suffix(rng, opts)),
            "tags": gen_tags(rng, opts["tag_pool"], opts["p_tag"]),
            "description": ["some description"] if rng.random() < 0.3 else [],
            "background": gen_background(rng, lib, opts),
            "items": gen_items(rng, lib, fid, rng.randint(1, opts["max_items"]), opts, True)}
    and_first_steps(rng, lib, feat, opts)
    # a feature / rule tag that merely LOOKS parametrised (both angle brackets): it is an ordinary
    # inherited tag for everything below, outline rows included
    if rng.random() < 0.04:
        feat["tags"].append("team<core>")
    for it in feat["items"]:
        if it["kind"] == "rule" and rng.random() < 0.04:
            it["tags"].append("team<core>")
    return feat


def and_first_steps(rng, lib, feat, opts):
    """A scenario may START with And / But: its type is that of the last background step in force
    (the rule's own background if it has steps, else the feature's)."""
    def last_type(bg):
        return bg["steps"][-1]["type"] if bg and bg.get("steps") else None
    ftype = last_type(feat.get("background"))

    def visit(items, inherited):
        for it in items:
            if it["kind"] == "rule":
                visit(it["items"], last_type(it.get("background")) or inherited)
            elif it["steps"] and rng.random() < 0.04 and it["steps"][0].get("doc") is None and \
                    not it["steps"][0].get("table") and "<" not in it["steps"][0]["text"]:
                # a scenario that starts with '*': there is nothing in front of it in the scenario, its
                # type is the default (given), whatever the backgrounds end with
                cands = [d for d in lib["defs"] if d["type"] in ("given", "step")]
                if cands:
                    d = rng.choice(cands)
                    st = it["steps"][0]
                    st.update({"kw": "*", "type": "given", "text": instantiate(rng, d), "def": d["id"]})
                    for nxt in it["steps"][1:]:
                        if nxt["kw"] in ("And", "But", "*"):
                            nxt["kw"] = STEP_KW[nxt["type"]]
                        else:
                            break
            elif inherited and it["steps"] and rng.random() < 0.12:
                cands = [d for d in lib["defs"] if d["type"] in (inherited, "step")]
                st = it["steps"][0]
                if cands and st.get("doc") is None and not st.get("table") and "<" not in st["text"]:
                    d = rng.choice(cands)
                    st.update({"kw": rng.choice(["And", "But"]), "type": inherited,
                               "text": instantiate(rng, d), "def": d["id"]})
                    # (the types of following And/But steps were derived from the old first step)
                    for nxt in it["steps"][1:]:
                        if nxt["kw"] in ("And", "But", "*"):
                            nxt["kw"] = STEP_KW[nxt["type"]]
                        else:
                            break
    visit(feat["items"], ftype)


# ---------------------------------------------------------------------------
# rendering (records the 1-based line of every entity)
# ---------------------------------------------------------------------------
def render_table(lines, indent, headings, rows, rng=None, p_gap=0.0):
    def esc(c):
        return c.replace("|", "\\|")      # (behave un-escapes pipes only)
    lines.append(indent + "| " + " | ".join(esc(h) for h in headings) + " |")
    out = []
    for row in rows:
        if rng is not None and rng.random() < p_gap:
            # comment / blank lines are legal between the rows of a table
            lines.append(rng.choice(["", indent + "# a comment between rows", "# c"]))
        lines.append(indent + "| " + " | ".join(esc(c) for c in row) + " |")
        out.append(len(lines))
    return out


def render_steps(lines, steps, indent, rng, linemap, owner):
    for i, st in enumerate(steps):
        lines.append(indent + "%s %s" % (st["kw"], st["text"]))
        linemap["%s#%d" % (owner, i)] = len(lines)
        if st.get("doc") is not None:
            q = st.get("doc_quote") or '"""'
            lines.append(indent + "  " + q)
            for dl in st["doc"].split("\n"):
                lines.append((indent + "  " + dl) if dl else "")
            lines.append(indent + "  " + q)
        if st.get("table"):
            render_table(lines, indent + "  ", st["table"]["headings"], st["table"]["rows"], rng, 0.05)


def noise(lines, rng, p):
    while rng.random() < p:
        lines.append(rng.choice(["", "", "  # a comment", "# another"]))


def render_feature(feat, rng, p_noise=0.15):
    """Returns (text, linemap) ; linemap: id -> line (1-based)."""
    lines = []
    lm = {}
    noise(lines, rng, p_noise)

    def tagline(tags, indent):
        if tags:
            if len(tags) > 1 and rng.random() < 0.3:
                lines.append(indent + "@" + tags[0])
                lines.append(indent + " ".join("@" + t for t in tags[1:]))
            else:
                lines.append(indent + " ".join("@" + t for t in tags))

    tagline(feat["tags"], "")
    lines.append("Feature: " + feat["name"])
    lm[feat["id"]] = len(lines)
    for d in feat["description"]:
        lines.append("  " + d)
    noise(lines, rng, p_noise)

    def background(bg, indent, owner):
        if bg is None:
            return
        lines.append(indent + "Background: " + owner)
        lm[owner + ".BG"] = len(lines)
        render_steps(lines, bg["steps"], indent + "  ", rng, lm, owner + ".BG")
        noise(lines, rng, p_noise)

    def items(its, indent):
        for it in its:
            noise(lines, rng, p_noise)
            tagline(it["tags"], indent)
            if it["kind"] == "rule":
                lines.append(indent + "Rule: " + it["name"])
                lm[it["id"]] = len(lines)
                background(it["background"], indent + "  ", it["id"])
                items(it["items"], indent + "  ")
            elif it["kind"] == "scenario":
                lines.append(indent + "%s: %s" % (it["kwd"], it["name"]))
                lm[it["id"]] = len(lines)
                render_steps(lines, it["steps"], indent + "  ", rng, lm, it["id"])
            else:
                lines.append(indent + "%s: %s" % (it["kwd"], it["name"]))
                lm[it["id"]] = len(lines)
                render_steps(lines, it["steps"], indent + "  ", rng, lm, it["id"])
                for e, ex in enumerate(it["examples"]):
                    noise(lines, rng, p_noise)
                    tagline(ex["tags"], indent + "  ")
                    lines.append(indent + "  %s: %s" % (ex["kwd"], ex["name"]))
                    lm["%s.E%d" % (it["id"], e)] = len(lines)
                    if ex.get("no_table"):
                        continue            # the keyword line only: an Examples block without a table
                    rl = render_table(lines, indent + "    ", ex["headings"], ex["rows"], rng, p_noise * 0.7)
                    for r, ln in enumerate(rl):
                        lm["%s.E%d.R%d" % (it["id"], e, r)] = ln

    background(feat["background"], "  ", feat["id"])
    items(feat["items"], "  ")
    noise(lines, rng, p_noise)
    return "\n".join(lines) + "\n", lm


# ---------------------------------------------------------------------------
# tree helpers shared with the reference model
# ---------------------------------------------------------------------------
def substitute(text, headings, row):
    """Model's own placeholder substitution (sequential replace like the
    documented behaviour: every <column> replaced by the row's cell)."""
    for h, v in zip(headings, row):
        text = text.replace("<%s>" % h, v)
    return text


def tag_safe_name(text):
    """The documented translation of a rendered tag (Tag.make_name docstring): alphanumerics and
    . _ - = : , ; ( ) are kept, white space becomes '_', every other character is dropped."""
    out = []
    for ch in text:
        if ch.isalnum() or ch in u"._-=:,;()":
            out.append(ch)
        elif ch.isspace():
            out.append(u"_")
    return u"".join(out)


def outline_rows(ol):
    """Expand an outline into row scenarios (model side).  Returns list of dicts
    with id, name_core (outline name substituted), tags, steps, e, r."""
    out = []
    for e, ex in enumerate(ol["examples"]):
        for r, row in enumerate(ex["rows"]):
            hd = ex["headings"]
            # the row's special placeholders (usable in tags and step names besides the name schema)
            special = [("examples.name", substitute(ex["name"], hd, row)), ("examples.index", str(e + 1)),
                       ("row.index", str(r + 1)), ("row.id", "%d.%d" % (e + 1, r + 1))]

            def with_special(text):
                for k, v in special:
                    text = text.replace("<%s>" % k, v)
                return text
            tags = []
            for t in ol["tags"]:
                t2 = with_special(substitute(t, hd, row)) if ("<" in t and ">" in t) else t
                if "<" in t2 and ">" in t2:
                    continue
                if "<" in t and ">" in t:
                    t2 = tag_safe_name(t2)      # only what was rendered from a template is translated
                tags.append(t2)
            tags = tags + list(ex["tags"])
            steps = []
            for st in ol["steps"]:
                s2 = dict(st)
                s2["text"] = with_special(substitute(st["text"], hd, row))
                if st.get("doc") is not None:
                    s2["doc"] = substitute(st["doc"], hd, row)
                if st.get("table"):
                    s2["table"] = {
                        "headings": [substitute(h, hd, row) for h in st["table"]["headings"]],
                        "rows": [[substitute(c, hd, row) for c in rw] for rw in st["table"]["rows"]]}
                steps.append(s2)
            out.append({"kind": "scenario", "id": "%s.E%d.R%d" % (ol["id"], e, r),
                        "name_core": substitute(ol["name"], hd, row),
                        "ex_name": substitute(ex["name"], hd, row),
                        "e": e, "r": r, "tags": tags, "raw_tags": tags,
                        "steps": steps, "outline": ol["id"], "row": row,
                        "headings": hd})
    return out


def walk_scenarios(world):
    """Yield (feature, rule_or_None, outline_or_None, scenario_dict) in run order."""
    for feat in world["features"]:
        for it in feat["items"]:
            if it["kind"] == "rule":
                for it2 in it["items"]:
                    if it2["kind"] == "outline":
                        for row in outline_rows(it2):
                            yield feat, it, it2, row
                    else:
                        yield feat, it, None, it2
            elif it["kind"] == "outline":
                for row in outline_rows(it):
                    yield feat, None, it, row
            else:
                yield feat, None, None, it


def all_steps_of(feat, rule, scen):
    """Model: inherited background steps first (feature bg, rule bg), then own."""
    steps = []

    def inherited(st):
        # an outline row gets the background steps with the row's cells filled in
        if scen.get("row") is None or scen.get("headings") is None:
            return st
        hd, row = scen["headings"], scen["row"]
        st2 = dict(st)
        st2["text"] = substitute(st["text"], hd, row)
        if st.get("doc") is not None:
            st2["doc"] = substitute(st["doc"], hd, row)
        if st.get("table"):
            st2["table"] = {"headings": [substitute(h, hd, row) for h in st["table"]["headings"]],
                            "rows": [[substitute(c, hd, row) for c in rw] for rw in st["table"]["rows"]]}
        return st2
    if feat.get("background"):
        for i, st in enumerate(feat["background"]["steps"]):
            steps.append(("%s.BG#%d" % (feat["id"], i), inherited(st)))
    if rule is not None and rule.get("background"):
        for i, st in enumerate(rule["background"]["steps"]):
            steps.append(("%s.BG#%d" % (rule["id"], i), inherited(st)))
    for i, st in enumerate(scen["steps"]):
        owner = scen.get("outline") or scen["id"]
        steps.append(("%s#%d" % (owner, i), st))
    return steps


def effective_tags(feat, rule, outline, scen):
    tags = set(feat["tags"])
    if rule is not None:
        tags |= set(rule["tags"])
    if outline is not None:
        tags |= set(t for t in outline["tags"] if not ("<" in t and ">" in t))
    tags |= set(scen["tags"])
    return tags


# ---------------------------------------------------------------------------
# script (what callbacks do) and configuration
# ---------------------------------------------------------------------------
OUTCOMES = ["ok", "assert", "exc", "notimpl", "kbi", "skip"]
EXC_CLASSES = ["Exception", "ValueError", "RuntimeError", "KeyError", "ZeroDivisionError", "TimeoutError",
               "NotImplementedError"]


def gen_message(rng, hostile):
    base = "msg%d" % rng.randint(0, 999)
    if hostile and rng.random() < 0.7:
        k = rng.randint(1, 3)
        base += "".join(rng.choice(HOSTILE) for _ in range(k)) + "end"
    return base


def gen_outcome(rng, dims):
    kinds = dims["outcomes"]
    if not kinds:
        return {"kind": "ok"}
    k = rng.choice(kinds)
    o = {"kind": k}
    if k in ("assert", "exc") and "skip" in kinds and not dims.get("continue_after_failed") and rng.random() < 0.15:
        o["pre_skip"] = True        # the step first calls scenario.skip(), then fails all the same
    if k == "assert":
        o["msg"] = gen_message(rng, dims["hostile"]) if rng.random() < 0.8 else None
    elif k == "exc":
        o["cls"] = rng.choice(EXC_CLASSES)
        o["msg"] = gen_message(rng, dims["hostile"])
    elif k == "skip" and dims["hostile"] and rng.random() < 0.6:
        o["reason"] = "why " + "".join(rng.choice(HOSTILE) for _ in range(rng.randint(1, 3))) + " z"
    elif k == "notimpl":
        o["msg"] = "todo%d" % rng.randint(0, 9)
        if rng.random() < 0.4:
            o["alt"] = True         # raised as behave.api.pending_step.PendingStepError (documented alternative)
    return o


def default_dims(rng):
    """Swarm: which dimensions are active in this world."""
    d = {}
    p_large = 0.2 if os.environ.get("VERIF_TIER") == "thorough" else 0.05
    d["size"] = "large" if rng.random() < p_large else rng.choice(["tiny", "small", "small", "medium"])
    d["steplib"] = "rich" if rng.random() < 0.3 else "small"
    allout = ["assert", "exc", "notimpl", "kbi", "skip"]
    rng.shuffle(allout)
    d["outcomes"] = allout[:rng.randint(0, 3)] if rng.random() < 0.8 else []
    d["p_fail"] = rng.choice([0.0, 0.1, 0.2, 0.35]) if d["outcomes"] else 0.0
    d["p_undefined"] = rng.choice([0.0, 0.0, 0.05, 0.15])
    d["hooks"] = [h for h in HOOK_NAMES if rng.random() < 0.6] if rng.random() < 0.8 else []
    d["p_hook_fail"] = rng.choice([0.0, 0.0, 0.05, 0.15])
    d["hostile"] = rng.random() < 0.25
    d["prints"] = rng.random() < 0.6
    d["ctx"] = rng.random() < 0.4
    d["cleanups"] = rng.random() < 0.4
    d["p_cleanup_fail"] = rng.choice([0.0, 0.0, 0.2])
    d["tagsel"] = rng.random() < 0.45
    d["namesel"] = rng.random() < 0.12
    d["locsel"] = rng.random() < 0.15
    d["stop"] = rng.random() < 0.2
    d["dry_run"] = rng.random() < 0.08
    d["wip"] = rng.random() < 0.05
    d["junit"] = rng.random() < 0.3
    d["rerun"] = rng.random() < 0.25
    d["nested"] = rng.random() < 0.15
    d["hook_skips"] = rng.random() < 0.1
    d["autoretry"] = rng.random() < 0.08
    if d["autoretry"]:
        # an interrupt or a skip() persists across attempts (unspecified territory)
        d["outcomes"] = [o for o in d["outcomes"] if o not in ("kbi", "skip")]
        d["hook_skips"] = False
        if "before_feature" not in d["hooks"]:
            d["hooks"].append("before_feature")
    d["continue_after_failed"] = rng.random() < 0.05
    d["clock"] = rng.choice(["steady", "steady", "jumpy", "stalled"])
    return d


SIZE_OPTS = {
    "tiny": dict(nfeat=(1, 1), max_items=2, min_steps=1, max_steps=3),
    "small": dict(nfeat=(1, 2), max_items=3, min_steps=0, max_steps=4),
    "medium": dict(nfeat=(1, 3), max_items=4, min_steps=0, max_steps=5),
    "large": dict(nfeat=(2, 3), max_items=6, min_steps=1, max_steps=8),
}


def gen_world(seed, overrides=None, profile=None):
    rng = random.Random(seed)
    dims = default_dims(rng)
    if profile:
        profile(dims, rng)
    if overrides:
        dims.update(overrides)
    so = SIZE_OPTS[dims["size"]]
    lib = gen_steplib(rng, dims["steplib"])
    if dims.get("async_steps"):
        for d in lib["defs"]:
            if rng.random() < 0.4:
                d["async"] = {"timeout": rng.choice([None, None, 1.0, 5.0]), "actx": rng.random() < 0.3}
    pool = list(TAG_POOL) if rng.random() < 0.7 else list(PLAIN_TAGS)
    if not dims.get("allow_wip_tag", True):
        pool = [t for t in pool if t != "wip"]
    if dims.get("wip_bias"):
        pool = ["wip", "wip", "a", "b", "slow"]
    opts = dict(tag_pool=pool, p_tag=rng.choice([0.15, 0.35, 0.5]),
                p_undefined=dims["p_undefined"], p_doc=0.1, p_table=0.1,
                p_background=rng.choice([0.0, 0.3, 0.6]),
                p_rule=rng.choice([0.0, 0.2, 0.35]),
                p_outline=rng.choice([0.0, 0.2, 0.35]),
                max_items=so["max_items"], min_steps=so["min_steps"],
                max_steps=so["max_steps"])
    opts["hostile_names"] = bool(dims.get("hostile"))
    opts["hostile_undefined"] = bool(dims.get("hostile_undefined"))
    opts["hostile_ctrl_names"] = bool(dims.get("hostile_ctrl_names"))
    opts["table_mutation"] = bool(dims.get("table_mutation"))
    opts.update(dims.get("opts", {}))
    nfeat = rng.randint(*so["nfeat"])
    feats = [gen_feature(rng, lib, i, opts) for i in range(nfeat)]
    world = {"seed": seed, "dims": dims, "features": feats, "steplib": lib,
             "hashseed": seed % 4}
    # --- render
    world["files"] = {}
    world["lines"] = {}
    for f in feats:
        text, lm = render_feature(f, rng)
        world["files"][f["path"]] = text
        world["lines"].update(lm)
    gen_script(rng, world, dims)
    gen_config(rng, world, dims)
    return world


def gen_actions(rng, world, dims, where):
    acts = []
    if dims["prints"]:
        if rng.random() < 0.5:
            acts.append({"a": "print", "stream": "stdout"})
        if rng.random() < 0.3:
            acts.append({"a": "print", "stream": "stderr"})
        for a in acts:
            if a["a"] == "print" and rng.random() < 0.15:
                a["eol"] = rng.choice(["", "\r\n", "\n\n"])
        if dims["hostile"]:
            for a in acts:
                if a["a"] == "print" and rng.random() < 0.5:
                    a["text"] = " " + "".join(rng.choice(HOSTILE) for _ in range(rng.randint(1, 3))) + " z"
        if rng.random() < 0.3:
            acts.append({"a": "log", "logger": rng.choice(["", "foo", "foo.bar", "baz", "foobar", "bazaar"]),
                         "level": rng.choice(["DEBUG", "INFO", "WARNING", "ERROR"])})
        if where == "step" and dims.get("log_level_changes") and rng.random() < 0.05:
            acts.append({"a": "root_level", "level": rng.choice([10, 30, 40])})     # a STEP changes the root logger's level
        if where == "step" and rng.random() < dims.get("p_hijack", 0.0):
            acts.append({"a": "hijack_stream", "stream": rng.choice(["stdout", "stderr"])})
        if where == "step" and rng.random() < dims.get("p_log_burst", 0.0):
            acts.append({"a": "log_burst", "n": 1005})
    if dims.get("midrun_skips") and where in ("step", "after_scenario") and rng.random() < 0.06:
        acts.append({"a": "skip_container", "what": rng.choice(["feature", "feature", "rule"]),
                     "reason": rng.random() < 0.5})
    if dims.get("status_reads") and rng.random() < 0.3:
        acts.append({"a": "read_status"})       # user code looks at feature/rule/scenario.status mid-run
    if dims["ctx"] and rng.random() < 0.5:
        acts.append({"a": rng.choice(["set", "set", "set", "del"]),
                     "name": rng.choice(ATTR_NAMES)})
    if dims["cleanups"] and rng.random() < 0.35 and where != "after_all":
        kind = rng.choice(["plain", "args", "layer", "fixture", "fixture_plain", "fixture_nested"])
        act = {"a": "cleanup", "kind": kind}
        if kind == "layer":
            act["layer"] = rng.choice(["testrun", "feature", "rule", "scenario"])
        if rng.random() < dims["p_cleanup_fail"]:
            act["raises"] = rng.choice(["Exception", "AssertionError", "Exception", "AssertionError", "StopIteration"])
        if kind == "fixture" and rng.random() < 0.1:
            act["setup_raises"] = True
        if kind in ("plain", "args") and rng.random() < 0.1:
            act["scoped"] = True        # the cleanup itself opens and closes a context layer
        acts.append(act)
    return acts


def gen_script(rng, world, dims):
    """script: key -> {"acts": [...], "out": {...}}; keys are call-site identities."""
    script = {}
    hooks = dims["hooks"]
    world["hooks"] = list(hooks)
    wip_scen = set()
    # steps
    for feat, rule, ol, sc in walk_scenarios(world):
        steps = all_steps_of(feat, rule, sc)
        for idx, (_sid, st) in enumerate(steps):
            key = "step|%s|%d|0" % (sc["id"], idx)
            ent = {"acts": gen_actions(rng, world, dims, "step"), "out": {"kind": "ok"}}
            if rng.random() < dims["p_fail"]:
                ent["out"] = gen_outcome(rng, dims)
            adef = None
            for dd in world["steplib"]["defs"]:
                if dd["id"] == st.get("def") and dd.get("async"):
                    adef = dd
            if adef is not None and adef["async"].get("timeout") and ent["out"]["kind"] == "exc" and rng.random() < 0.5:
                ent["out"]["cls"] = "TimeoutError"      # the step's OWN TimeoutError is an exception, not behave's timeout
            if adef is not None and rng.random() < 0.7:
                ent["async"] = {"sleep": rng.choice([0.01, 0.5, 2.0, 30.0, 3600.0]) if rng.random() < 0.8 else 0,
                                "spawn": rng.choice([0, 0, 0.2, 10.0])}
            if dims["nested"] and rng.random() < 0.15:
                ent["acts"].append({"a": "execute_steps", "n": rng.randint(1, 2),
                                    "bad": rng.random() < 0.25,
                                    "fail": rng.choice([None, None, None, "assert", "exc"])})
            if ent["acts"] or ent["out"]["kind"] != "ok" or ent.get("async"):
                script[key] = ent
        if dims["autoretry"] and rng.random() < 0.5:
            # second/third attempt plans
            for att in (1, 2):
                for idx, _ in enumerate(steps):
                    if rng.random() < dims["p_fail"]:
                        script["step|%s|%d|%d" % (sc["id"], idx, att)] = {
                            "acts": [], "out": gen_outcome(rng, dims)}
    # hooks
    def hook_entry(name, eid, tag=""):
        ent = {"acts": gen_actions(rng, world, dims, name), "out": {"kind": "ok"}}
        if rng.random() < dims["p_hook_fail"]:
            ent["out"] = {"kind": rng.choice(["exc", "assert"]),
                          "cls": rng.choice(EXC_CLASSES + ["behave.exception:ConfigError"]),
                          "msg": gen_message(rng, dims["hostile"])}
            if dims.get("hook_interrupts") and rng.random() < 0.5:
                ent["out"] = {"kind": "kbi"}      # the user's Ctrl-C arrives while this hook runs
        if dims.get("log_level_changes") and name in ("before_feature", "before_rule") and rng.random() < 0.3:
            ent["acts"].append({"a": "root_level", "level": rng.choice([0, 10, 30, 40, 50])})
        if dims["hook_skips"] and name in ("before_feature", "before_rule", "before_scenario") \
                and rng.random() < 0.25:
            ent["acts"].append({"a": "skip_element", "how": rng.choice(["skip", "mark_skipped"]),
                                "reason": rng.random() < 0.5})
        if ent["acts"] or ent["out"]["kind"] != "ok":
            script["hook|%s|%s|%s|0" % (name, eid, tag)] = ent

    for name in ("before_all", "after_all"):
        if name in hooks:
            ent = {"acts": gen_actions(rng, world, dims, name), "out": {"kind": "ok"}}
            if rng.random() < dims["p_hook_fail"] * 0.5:
                ent["out"] = {"kind": "exc", "cls": "Exception", "msg": "all-hook"}
            if name == "before_all" and rng.random() < 0.06:
                # environment code switches the step matcher (steps are loaded already: it must not
                # matter for this run, and the NEXT run starts from the default again)
                ent["acts"].append({"a": "use_matcher", "name": rng.choice(["re", "cfparse"])})
            if name == "before_all" and dims["cleanups"] and rng.random() < 0.15:
                # the documented user handler for cleanup errors; what it returns is irrelevant
                ent["acts"].append({"a": "install_cleanup_handler", "returns": rng.choice([True, None, False])})
            if dims.get("log_level_changes") and name == "before_all" and rng.random() < 0.5:
                ent["acts"].append({"a": "root_level", "level": rng.choice([0, 10, 30, 40, 50])})
            if ent["acts"] or ent["out"]["kind"] != "ok":
                script["hook|%s|||0" % name] = ent

    def container(c, kind):
        for nm in ("before_" + kind, "after_" + kind):
            if nm in hooks:
                hook_entry(nm, c["id"])
        for t in c["tags"]:
            for nm in ("before_tag", "after_tag"):
                if nm in hooks:
                    hook_entry(nm, c["id"], t)

    for feat in world["features"]:
        container(feat, "feature")
        for it in feat["items"]:
            if it["kind"] == "rule":
                container(it, "rule")
    for feat, rule, ol, sc in walk_scenarios(world):
        container(sc, "scenario")
        if "before_step" in hooks or "after_step" in hooks:
            steps = all_steps_of(feat, rule, sc)
            for idx in range(len(steps)):
                for nm in ("before_step", "after_step"):
                    if nm in hooks and rng.random() < 0.3:
                        hook_entry(nm, "%s#%d" % (sc["id"], idx))
    if dims.get("table_mutation"):
        if "before_feature" not in world["hooks"]:
            world["hooks"].append("before_feature")
        for feat in world["features"]:
            outs = [it for it in feat["items"] if it["kind"] == "outline"]
            for it in feat["items"]:
                if it["kind"] == "rule":
                    outs += [x for x in it["items"] if x["kind"] == "outline"]
            for ol in outs:
                mut = ol.get("_mut")
                if mut:
                    key = "hook|before_feature|%s||0" % feat["id"]
                    ent = script.setdefault(key, {"acts": [], "out": {"kind": "ok"}})
                    act = dict(mut)
                    act["a"] = "examples_table"
                    act["outline"] = ol["id"]
                    ent["acts"].append(act)
        for key, ent in list(script.items()):
            if key.startswith("step|") and rng.random() < 0.3:
                ent["acts"].append({"a": "step_table", "what": rng.choice(["add_row", "cell"])})
        for feat, rule, ol, sc in walk_scenarios(world):
            if ol is None:
                continue
            for idx, (_sid, st) in enumerate(all_steps_of(feat, rule, sc)):
                if st.get("table") and rng.random() < 0.5:
                    key = "step|%s|%d|0" % (sc["id"], idx)
                    ent = script.setdefault(key, {"acts": [], "out": {"kind": "ok"}})
                    if not any(a["a"] == "step_table" for a in ent["acts"]):
                        ent["acts"].append({"a": "step_table", "what": rng.choice(["add_row", "cell"])})
    world["script"] = script
    world["autoretry"] = {}
    world["autoretry_outlines"] = []
    if dims["autoretry"]:
        for feat, rule, ol, sc in walk_scenarios(world):
            if rng.random() < 0.4:
                world["autoretry"][sc["id"]] = rng.randint(2, 3)
        # ... or a whole outline is patched with one call (all its rows get the same bound)
        seen = set()
        for feat, rule, ol, sc in walk_scenarios(world):
            if ol is not None and ol["id"] not in seen:
                seen.add(ol["id"])
                if rng.random() < 0.3:
                    n = rng.randint(2, 3)
                    for row in outline_rows(ol):
                        world["autoretry"][row["id"]] = n
                    world["autoretry_outlines"].append(ol["id"])


FORMATTERS = ["plain", "pretty", "json", "json.pretty", "progress", "progress2",
              "progress3", "null", "rerun", "tags", "tags.location", "steps",
              "steps.doc", "steps.usage", "steps.catalog", "steps.code", "steps.bad"]


def gen_config(rng, world, dims):
    cfg = {"tagexpr": None, "tag_args": [], "tags_protocol": None,
           "stop": dims["stop"], "dry_run": dims["dry_run"], "wip": dims["wip"],
           "show_skipped": rng.random() < 0.6, "names": [], "paths": None,
           "capture": {"stdout": rng.random() < 0.75, "stderr": rng.random() < 0.75,
                       "log": rng.random() < 0.75},
           "formatters": [], "junit": dims["junit"], "summary": rng.random() < 0.9,
           "userdata": {}, "logging_level": None, "logging_filter": None,
           "logging_clear_handlers": False, "multiline": rng.random() < 0.8,
           "timings": rng.random() < 0.5, "color": rng.random() < 0.15,
           "continue_after_failed": dims["continue_after_failed"]}
    if dims["tagsel"]:
        used = sorted(set(t for f, r, o, s in walk_scenarios(world)
                          for t in effective_tags(f, r, o, s)) or {"a"})
        ast = gen_tagexpr(rng, used + ["a", "zz"])
        if rng.random() < 0.06:
            # a conjunction of bare operands one of which is a wildcard (no and/or/not word anywhere
            # once it is given as several --tags options)
            t1, t2 = rng.choice(used), rng.choice(used + ["a"])
            tagged = [sorted(effective_tags(f, r, o, sc)) for f, r, o, sc in walk_scenarios(world)]
            tagged = [ts for ts in tagged if ts]
            if tagged and rng.random() < 0.8:
                ts = rng.choice(tagged)         # ... that some scenario really satisfies
                t1, t2 = rng.choice(ts), rng.choice(ts)
            ast = ["and", ["glob", t1[0] + "*"], ["tag", t2]]
            if rng.random() < 0.5:
                ast = ["and", ast[2], ast[1]]
        cfg["tagexpr"] = ast
        r = rng.random()
        if tagexpr_is_cnf(ast) and r < 0.3:
            cfg["tag_args"] = render_tagexpr_v1(ast, rng)
            cfg["tags_protocol"] = rng.choice(["v1", "auto_detect"])
            # wildcard-free by construction of CNF check (only plain tags)
        else:
            cfg["tag_args"] = [render_tagexpr(ast, at=rng.random() < 0.5)]
            if ast[0] == "and" and rng.random() < 0.5:
                # the top-level conjunction given as several --tags options (documented: and-ed)
                def conj(a):
                    return conj(a[1]) + conj(a[2]) if a[0] == "and" else [a]
                cfg["tag_args"] = [render_tagexpr(c, at=rng.random() < 0.5) for c in conj(ast)]
            cfg["tags_protocol"] = rng.choice([None, None, "v2", "auto_detect"])
    if dims["namesel"]:
        names = [s["name"] if "name" in s else s["name_core"]
                 for f, r, o, s in walk_scenarios(world)]
        pats = []
        for _ in range(rng.randint(1, 2)):
            r = rng.random()
            if names and r < 0.4:
                import re as _re
                pats.append(_re.escape(rng.choice(names)) or "alpha")
            elif r < 0.7:
                pats.append(rng.choice(["alpha", "beta", "gamma", "S0", "S1", "O1", "R0"]))
            else:
                pats.append(rng.choice([r"S\d$", r"^sc F0", r"al|ga", r"E0\.R1|@1\.2", r"-- @1"]))
            if rng.random() < 0.08:
                pats[-1] = rng.choice(['"alpha"', '"beta"', "'gamma'"])     # quotes are part of the pattern
            if names and rng.random() < 0.15:
                # a pattern with a significant leading/trailing blank (word boundary inside a name)
                words = rng.choice(names).split(" ")
                import re as _re
                w = _re.escape(rng.choice(words)) or "alpha"
                pats[-1] = rng.choice([w + " ", " " + w, " " + w + " "])
        cfg["names"] = pats
    # formatters
    nf = rng.choice([1, 1, 2, 3, 4])
    fmts = []
    for i in range(nf):
        name = rng.choice(FORMATTERS[:9]) if rng.random() < 0.8 else rng.choice(FORMATTERS)
        fmts.append([name, "out/%s_%d.txt" % (name.replace(".", "_"), i)])
    if dims["rerun"] and not any(f[0] == "rerun" for f in fmts):
        fmts.append(["rerun", "out/rerun.txt"])
    # at most one formatter may write to the terminal
    if rng.random() < 0.4:
        fmts[rng.randrange(len(fmts))][1] = None
    if dims.get("rec"):
        fmts.insert(0, ["rec", "out/rec_first.txt"])
        fmts.append(["rec", "out/rec_last.txt"])
    cfg["short_outfiles"] = rng.random() < 0.4
    if cfg["short_outfiles"]:
        # fewer -o than -f: the formatters that write to stdout come last and get no -o at all
        fmts = [f for f in fmts if f[1]] + [f for f in fmts if not f[1]]
    cfg["formatters"] = fmts
    if rng.random() < 0.2:
        cfg["logging_level"] = rng.choice(["DEBUG", "WARNING", "ERROR"])
    if rng.random() < 0.1:
        cfg["logging_filter"] = rng.choice(["foo", "-foo", "foo,baz", "foo,-baz", "-foo,-baz", "baz,-foo.bar", "root,foo.bar"])
    if rng.random() < dims.get("p_clear_handlers", 0.1):
        cfg["logging_clear_handlers"] = True
    if dims.get("outline_schemas") and rng.random() < 0.5:
        cfg["outline_schema"] = rng.choice(["{name} -*- {examples.name}@{row.id}", "{name} [{row.index}/{examples.index}]",
                                            "{name}", "{name} :: {examples.name} :: {row.id}"])
    if dims["junit"]:
        if rng.random() < 0.3:
            cfg["userdata"]["behave.reporter.junit.show_timings"] = rng.choice(["true", "false"])
        if rng.random() < 0.3:
            cfg["userdata"]["behave.reporter.junit.show_timestamp"] = rng.choice(["true", "false"])
        if rng.random() < 0.3:
            cfg["userdata"]["behave.reporter.junit.show_hostname"] = rng.choice(["true", "false"])
        for sw in ("show_multiline", "show_scenarios", "show_tags", "show_skipped_always"):
            if rng.random() < 0.2:
                cfg["userdata"]["behave.reporter.junit." + sw] = rng.choice(["true", "false"])
    if rng.random() < dims.get("p_summary_format", 0.15):
        cfg["userdata"]["behave.reporter.summary.output_format"] = rng.choice(["v1", "v1A", "v1B", "v2", "v3"])
    # paths
    paths = None
    if dims["locsel"]:
        paths = []
        feats = list(world["features"])
        for f in feats:
            r = rng.random()
            nlines = world["files"][f["path"]].count("\n")
            if r < 0.2:
                paths.append(f["path"])
            elif r < 0.35:
                # systematic sweep: successive worlds of a worker address successive lines (0 .. past EOF)
                paths.append("%s:%d" % (f["path"], (world["seed"] // 16) % (nlines + 4)))
            elif r < 0.9:
                for _ in range(rng.randint(1, 3)):
                    ln = rng.randint(0, nlines + 2)
                    if rng.random() < 0.6:
                        cand = [v for k, v in sorted(world["lines"].items())
                                if k.startswith(f["id"]) and "#" not in k and ".BG" not in k]
                        ln = rng.choice(cand)
                    paths.append("%s:%d" % (f["path"], ln))
            # else: feature omitted from the run
        if not paths:
            paths = [feats[0]["path"]]
        if rng.random() < 0.3:
            cfg["listfile"] = {"path": rng.choice(["sel.txt", "features/sel.txt", "lists/sel.txt"]),
                               "comments": rng.random() < 0.5}
    cfg["paths"] = paths
    # 0: none; 1: a silent application handler; 2: plus the application's own stream handler on the real stderr
    cfg["pre_handler"] = (2 if rng.random() < 0.5 else 1) if dims.get("pre_handler") else 0
    world["cfg"] = cfg
    world["stale_rerun"] = dims["rerun"] and rng.random() < 0.4


def build_argv(world):
    cfg = world["cfg"]
    argv = []
    for t in cfg["tag_args"]:
        argv.append("--tags=" + t)
    if cfg["tags_protocol"]:
        argv += ["--tags-protocol", cfg["tags_protocol"]] if False else []
    if cfg["stop"]:
        argv.append("--stop")
    if cfg["dry_run"]:
        argv.append("--dry-run")
    if cfg["wip"]:
        argv.append("--wip")
    argv.append("--show-skipped" if cfg["show_skipped"] else "--no-skipped")
    for n in cfg["names"]:
        argv.append("--name=" + n)
    if not cfg["wip"]:
        argv.append("--capture" if cfg["capture"]["stdout"] else "--no-capture")
        argv.append("--logcapture" if cfg["capture"]["log"] else "--no-logcapture")
    argv.append("--capture-stderr" if cfg["capture"]["stderr"] else "--no-capture-stderr")
    for name, out in cfg["formatters"]:
        argv += ["-f", name]
    if any(out for _n, out in cfg["formatters"]):
        outs = [out for _n, out in cfg["formatters"]]
        if cfg.get("short_outfiles"):
            # fewer -o than -f: the formatters without an outfile of their own write to stdout
            while outs and not outs[-1]:
                outs.pop()
        for out in outs:
            argv += ["-o", out if out else "-"]
    if cfg["junit"]:
        argv += ["--junit", "--junit-directory", "reports"]
    argv.append("--summary" if cfg["summary"] else "--no-summary")
    for k, v in sorted(cfg["userdata"].items()):
        argv += ["-D", "%s=%s" % (k, v)]
    if cfg["logging_level"]:
        argv.append("--logging-level=" + cfg["logging_level"])
    if cfg["logging_filter"]:
        argv.append("--logging-filter=" + cfg["logging_filter"])
    if cfg["logging_clear_handlers"]:
        argv.append("--logging-clear-handlers")
    argv.append("--multiline" if cfg["multiline"] else "--no-multiline")
    argv.append("--show-timings" if cfg["timings"] else "--no-timings")
    argv.append("--color=always" if cfg["color"] else "--no-color")
    argv.append("--no-snippets")
    paths = cfg["paths"]
    if cfg.get("paths_raw"):
        argv += cfg["paths_raw"]
    elif paths is None:
        argv.append("features")
    elif cfg.get("listfile"):
        argv.append("@" + cfg["listfile"]["path"])
    else:
        argv += paths
    return argv


def world_to_json(world):
    return json.dumps(world, sort_keys=True, ensure_ascii=True)
