# -*- coding: utf-8 -*-
"""Child-process cross-check of the in-process seams.

A sample of worlds is additionally executed as a REAL child process
(`python bootstrap.py` -> behave.__main__.main(argv), real pipes for stdout /
stderr, real clock) and its exit code and the per-stream marker sets are
compared with the in-process simulated run of the same world.
"""
from __future__ import annotations

import json
import os
import re
import subprocess
import sys

from . import runtime as R
from . import world as W

HERE = os.path.dirname(os.path.dirname(os.path.abspath(__file__)))

BOOT = r'''
import sys, json, os, logging
sys.path.insert(0, %(repo)r); sys.path.insert(0, %(here)r)
from sim import runtime as R, world as W
world = json.load(open("world.json", encoding="utf-8"))
R.SIM.reset(world)
R.SIM.clock = R.SimClock("steady", world["seed"])
R.SIM.tty_out, R.SIM.tty_err = sys.stdout, sys.stderr
if any(d.get("async") for d in world["steplib"]["defs"]):
    R.SIM.vloop = R.make_virtual_loop(R.SIM.clock)
R.reset_behave_globals(world)
if world["cfg"].get("pre_handler"):
    logging.getLogger().addHandler(R.PreHandler())
    if world["cfg"]["pre_handler"] == 2:
        logging.getLogger().addHandler(R.PreStreamHandler())
if any(f[0] == "rec" for f in world["cfg"]["formatters"]):
    from behave.formatter import _registry as _freg
    _freg.register_as("rec", R.make_rec_formatter_class())
from behave.__main__ import main
rc = main(W.build_argv(world))
sys.stdout.flush(); sys.stderr.flush()
json.dump({"rc": rc, "n_events": len(R.SIM.events),
           "events": [[e["kind"], e.get("name"), e.get("eid"), e.get("scen"), e.get("idx"), e.get("raised")] for e in R.SIM.events]},
          open("child_result.json", "w"))
sys.exit(rc)
'''

MARK = re.compile(r"MK\d{4}X")


def run_child(world, root):
    R.write_world_files(world, root)
    with open(os.path.join(root, "world.json"), "w", encoding="utf-8") as f:
        json.dump(world, f)
    with open(os.path.join(root, "sim_boot.py"), "w", encoding="utf-8") as f:
        f.write(BOOT % {"repo": os.environ.get("VERIF_REPO", "/repo"), "here": HERE})
    env = {k: v for k, v in os.environ.items() if not k.startswith("BEHAVE_")}
    env.update({"PYTHONHASHSEED": str(world.get("hashseed", 0)), "PYTHONUTF8": "1", "HOME": root,
                "COLUMNS": "80", "PYTHONDONTWRITEBYTECODE": "1"})
    p = subprocess.run([sys.executable, "sim_boot.py"], cwd=root, env=env, stdout=subprocess.PIPE,
                       stderr=subprocess.PIPE, timeout=120)
    res = None
    try:
        with open(os.path.join(root, "child_result.json")) as f:
            res = json.load(f)
    except Exception:
        pass
    return {"exit": p.returncode, "stdout": p.stdout.decode("utf-8", "replace"),
            "stderr": p.stderr.decode("utf-8", "replace"), "result": res}


def compare(world, hist, child):
    """Returns list of (prop, rule, key, detail)."""
    out = []
    if hist.get("config_error") or hist.get("escaped"):
        return out
    if child["result"] is None:
        out.append(("HARNESS", "child", "no-result", {"stderr": child["stderr"][-400:]}))
        return out
    if (child["exit"] != 0) != (hist["rc"] != 0):
        out.append(("C01", "child-exit-vs-inproc", "exit-%s-vs-rc-%s" % (child["exit"], hist["rc"]),
                    {"child_exit": child["exit"], "inproc_rc": hist["rc"]}))
    ev_in = [[e["kind"], e.get("name"), e.get("eid"), e.get("scen"), e.get("idx"), e.get("raised")] for e in hist["events"]]
    if ev_in != child["result"]["events"]:
        out.append(("HARNESS", "child", "event-log-differs", {"inproc": len(ev_in), "child": child["result"]["n_events"]}))
        return out
    tin_out = set(MARK.findall("".join(c[2] for c in hist["tty_out"])))
    tin_err = set(MARK.findall("".join(c[2] for c in hist["tty_err"])))
    ch_out = set(MARK.findall(child["stdout"]))
    ch_err = set(MARK.findall(child["stderr"]))
    if tin_out != ch_out or tin_err != ch_err:
        out.append(("C18", "child-markers-vs-inproc",
                    "stdout" if tin_out != ch_out else "stderr",
                    {"only_inproc_stdout": sorted(tin_out - ch_out)[:5], "only_child_stdout": sorted(ch_out - tin_out)[:5],
                     "only_inproc_stderr": sorted(tin_err - ch_err)[:5], "only_child_stderr": sorted(ch_err - tin_err)[:5]}))
    return out
